#!/bin/sh
# runs every claimed check (quick tier by default) and prints one summary line per check
tier=${1:-quick}
cd "$(dirname "$0")/.."
for id in $(python3 -c "import json;print(' '.join(c['property_id'] for c in json.load(open('MANIFEST.json'))['checks']))"); do
  start=$(date +%s)
  out=$(bin/check $id --tier $tier 2>&1 | tail -1)
  code=$?
  echo "$id $(( $(date +%s) - start ))s :: $out"
done
