#!/bin/sh
# usage: tools/try_clean.sh <seed name> <check id>... : applies seeded/<name>/patch.diff to the scratch worktree /tmp/repo-clean
# (never /repo), runs the checks against it with VERIF_REPO, undoes it.  For development only.
name=$1; shift
git -C /tmp/repo-clean checkout -q -- . && git -C /tmp/repo-clean apply /verif/seeded/$name/patch.diff || exit 9
for c in "$@"; do
  VERIF_REPO=/tmp/repo-clean timeout 1500 /verif/bin/check $c --tier quick 2>&1 | grep -E "^VIOLATION|^  C|^INCONCLUSIVE|exit [0-9]" | cut -c1-420 | head -8
done
git -C /tmp/repo-clean checkout -q -- .
