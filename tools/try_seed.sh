#!/bin/sh
# usage: tools/try_seed.sh <patch file> <property id>...   - applies the patch to /repo, runs the quick checks, ALWAYS undoes it
patch=$1; shift
cd /repo || exit 9
if ! git diff --quiet; then echo "refusing: /repo has uncommitted changes"; exit 9; fi
git apply "$patch" || { echo "patch does not apply"; exit 9; }
trap 'git -C /repo checkout -- . ; git -C /repo clean -fdq src tests 2>/dev/null' EXIT INT TERM
cd /verif
for id in "$@"; do
  start=$(date +%s)
  out=$(bin/check $id --tier quick 2>&1)
  code=$?
  echo "== $id exit=$code $(( $(date +%s) - start ))s"
  echo "$out" | grep -E "VIOLATION|KNOWN-FINDING|INCONCLUSIVE" | cut -c1-400 | head -4
  echo "$out" | grep -A1 "^VIOLATION" | grep -v "^VIOLATION\|^--" | cut -c1-500 | head -2
done
