#!/bin/sh
# usage: tools/confirm_seed.sh <worktree> <k> [cargo feature flags for the demo]
# confirms in the scratch worktree: patch applies, crate compiles, 174 baseline tests pass with it,
# the demonstration fails with it and passes without it.
wt=$1; k=$2; shift 2; feat="$@"
cd "$wt" || exit 9
git checkout -q -- src 2>/dev/null
mkdir -p tests; cp seed/seed${k}_demo.rs tests/seed${k}_demo.rs
echo "--- without the change: demo"
cargo test --offline $feat --test seed${k}_demo 2>&1 | grep -E "^test result|error(\[|:)" | head -3
git apply seed/seed${k}.patch || { echo "PATCH DOES NOT APPLY"; exit 9; }
echo "--- with the change: baseline"
cargo test --offline --lib 2>&1 | grep -E "^test result|error(\[|:)" | head -3
echo "--- with the change: demo"
cargo test --offline $feat --test seed${k}_demo 2>&1 | grep -E "^test result|error(\[|:)" | head -3
git checkout -q -- src
