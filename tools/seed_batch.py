#!/usr/bin/env python3
"""confirm each seeded change in its scratch worktree, then apply it to /repo, run the listed quick checks, undo it.
usage: seed_batch.py <seeds.json> <out.jsonl> [name filter]"""
import json, subprocess, sys, os, re, time
seeds = json.load(open(sys.argv[1]))
out = open(sys.argv[2], 'a')
flt = sys.argv[3] if len(sys.argv) > 3 else ''
for name, prop, wt, k, feat, checks in seeds:
    if flt and flt not in name:
        continue
    rec = {'name': name, 'property': prop, 'checks': {}}
    c = subprocess.run(['/verif/tools/confirm_seed.sh', wt, str(k)] + feat.split(), capture_output=True, text=True).stdout
    parts = c.split('---')
    def res(part):
        m = re.search(r'test result: (\w+)\. (\d+) passed; (\d+) failed', part)
        return (m.group(1), int(m.group(2)), int(m.group(3))) if m else ('none', 0, 0)
    try:
        wo, base, wi = res(parts[1]), res(parts[2]), res(parts[3])
    except IndexError:
        wo = base = wi = ('none', 0, 0)
    rec['confirm'] = {'demo_without': wo, 'baseline_with': base, 'demo_with': wi}
    rec['confirmed'] = wo[0] == 'ok' and base[0] == 'ok' and base[1] == 174 and wi[0] == 'FAILED'
    patch = os.path.join('/verif/seeded', name, 'patch.diff')
    assert subprocess.run(['git', '-C', '/repo', 'diff', '--quiet']).returncode == 0, '/repo dirty'
    if subprocess.run(['git', '-C', '/repo', 'apply', patch]).returncode != 0:
        rec['error'] = 'patch does not apply to /repo'
    else:
        try:
            for cid in checks:
                t0 = time.time()
                r = subprocess.run(['/verif/bin/check', cid, '--tier', 'quick'], capture_output=True, text=True, cwd='/verif')
                lines = r.stdout.splitlines()
                det = [l for l in lines if l.startswith('  ') and ':' in l][:2]
                inc = [l for l in lines if l.startswith('INCONCLUSIVE')][:2]
                rec['checks'][cid] = {'exit': r.returncode, 'wall_s': round(time.time() - t0), 'violations': sum(1 for l in lines if l.startswith('VIOLATION')),
                                      'detail': [d.strip()[:300] for d in det], 'inconclusive': [i[:300] for i in inc]}
        finally:
            subprocess.run(['git', '-C', '/repo', 'checkout', '--', '.'])
    out.write(json.dumps(rec) + '\n')
    out.flush()
    print(name, rec['confirmed'], {c_: (v['exit'], v['wall_s']) for c_, v in rec['checks'].items()}, flush=True)
