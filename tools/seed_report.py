#!/usr/bin/env python3
"""builds seeded/RESULTS.md and seeded/<name>/meta.json from the batch result files (later records override earlier ones)"""
import json, os, sys, re
VERIF = os.path.dirname(os.path.dirname(os.path.abspath(__file__)))
recs = {}
for path in sys.argv[1:]:
    for l in open(path):
        r = json.loads(l)
        old = recs.get(r['name'])
        if old:
            old['checks'].update(r['checks'])
            old['confirm'] = r.get('confirm', old.get('confirm'))
            old['confirmed'] = r.get('confirmed', old.get('confirmed'))
        else:
            recs[r['name']] = r
ORIGIN = {'C11-unmasked-transpose': 'pinned-tree defect (reverse of fix 3072ea0)', 'C12-raw-href': 'pinned-tree defect (reverse of fix 62c2cec)',
          'C17-color-unwrap': 'pinned-tree defect (reverse of fix 352d767)', 'C17-position-guard': 'pinned-tree defect (reverse of fix b5bc324)'}
lines = ['# Seeded changes and which checks catch them', '',
         'Each row is a change to fast_qr that compiles and passes the 174 baseline tests, written by a fresh sub-agent that saw only the property text and a',
         'scratch worktree (or, for the four marked rows, the original defect of the pinned tree kept as a reverse patch). "confirmed" = I re-ran in the scratch',
         'worktree: the demonstration passes without the change, the baseline passes with it (174), the demonstration fails with it. The verdict columns are the',
         'exit codes of `bin/check <id> --tier quick` with the patch applied to /repo (1 = VIOLATION with a natively confirmed witness, 2 = inconclusive, 0 = not seen).', '',
         '| seeded change | breaks | confirmed | check: exit (wall s) | what the check reported |', '|---|---|---|---|---|']
for name in sorted(recs):
    r = recs[name]
    cells = []
    detail = ''
    for c, v in sorted(r['checks'].items()):
        cells.append('%s: **%d** (%d s)' % (c, v['exit'], v['wall_s']))
        if v['exit'] == 1 and v['detail'] and not detail:
            detail = v['detail'][0][:220]
        elif v['exit'] == 2 and v['inconclusive'] and not detail:
            detail = v['inconclusive'][0][:220]
    lines.append('| %s | %s | %s | %s | %s |' % (name, r['property'], 'yes' if r.get('confirmed') else 'see meta', ', '.join(cells), detail.replace('|', '/')))
    d = os.path.join(VERIF, 'seeded', name)
    if os.path.isdir(d) and not os.path.exists(os.path.join(d, 'meta.json')) or name not in ORIGIN:
        notes = ''
        np_ = os.path.join(d, 'NOTES.md')
        if os.path.exists(np_):
            notes = open(np_).read()
        m = {'property': r['property'], 'origin': 'written by a fresh sub-agent given only the property text and a scratch worktree',
             'needs_to_manifest': (re.sub(r'\s+', ' ', notes)[:600] if notes else ''),
             'what_i_ran': {'confirmation_in_scratch_worktree': r.get('confirm'), 'confirmed': r.get('confirmed'),
                            'checks_with_patch_applied_to_repo': {c: {'exit': v['exit'], 'wall_s': v['wall_s'], 'violations': v['violations']} for c, v in r['checks'].items()}},
             'caught_by': [c for c, v in r['checks'].items() if v['exit'] == 1],
             'inconclusive_in': [c for c, v in r['checks'].items() if v['exit'] == 2],
             'missed_by': [c for c, v in r['checks'].items() if v['exit'] == 0]}
        if os.path.isdir(d):
            json.dump(m, open(os.path.join(d, 'meta.json'), 'w'), indent=1)
open(os.path.join(VERIF, 'seeded', 'RESULTS.md'), 'w').write('\n'.join(lines) + '\n')
print('\n'.join(lines[-len(recs):]))
