#!/usr/bin/env python3
"""builds seeded/RESULTS.md and seeded/<name>/meta.json from the batch result files.
usage: seed_report.py            (reads seeded/seed_results*.jsonl: round 1 = seed_results{,2,3,4}.jsonl,
                                  round 2 first pass = seed_results_r2.jsonl, after strengthening = seed_results_r2b.jsonl)"""
import json, os, re, glob
VERIF = os.path.dirname(os.path.dirname(os.path.abspath(__file__)))
SD = os.path.join(VERIF, 'seeded')


def load(paths):
    recs = {}
    for path in paths:
        if not os.path.exists(path):
            continue
        for l in open(path):
            r = json.loads(l)
            old = recs.get(r['name'])
            if old:
                old['checks'].update(r['checks'])
                if r.get('confirmed') is not None and 'confirm' in r:
                    old['confirm'] = r['confirm']
                    old['confirmed'] = r['confirmed'] or old.get('confirmed')
            else:
                recs[r['name']] = r
    return recs


r1 = load([os.path.join(SD, f) for f in ('seed_results.jsonl', 'seed_results2.jsonl', 'seed_results3.jsonl', 'seed_results4.jsonl')])
r2a = load([os.path.join(SD, 'seed_results_r2.jsonl')])
r2b = load([os.path.join(SD, 'seed_results_r2b.jsonl'), os.path.join(SD, 'seed_results_r2c.jsonl')])
r3 = load([os.path.join(SD, 'seed_results_r3.jsonl'), os.path.join(SD, 'seed_results_r3b.jsonl')])
ORIGIN = {'C11-unmasked-transpose': 'pinned-tree defect (reverse of fix 3072ea0)', 'C12-raw-href': 'pinned-tree defect (reverse of fix 62c2cec)',
          'C17-color-unwrap': 'pinned-tree defect (reverse of fix 352d767)', 'C17-position-guard': 'pinned-tree defect (reverse of fix b5bc324)'}


def cells(r):
    out = []
    for c, v in sorted(r['checks'].items()):
        out.append('%s: **%d** (%d s)' % (c, v['exit'], v['wall_s']))
    return ', '.join(out)


def detail(r):
    for want in (1, 2):
        for c, v in sorted(r['checks'].items()):
            if v['exit'] == want:
                d = (v['detail'] if want == 1 else v['inconclusive'])
                if d:
                    return d[0][:200].replace('|', '/')
    return ''


lines = ['# Seeded changes and which checks catch them', '',
         'Each row is a change to fast_qr that compiles and passes the 174 baseline tests, written by a fresh sub-agent that saw only the property text and a',
         'scratch worktree (or, for four rows of round 1, the original defect of the pinned tree kept as a reverse patch). "confirmed" = re-run by me in the',
         'scratch worktree: the demonstration passes without the change, the baseline passes with it (174), the demonstration fails with it ("see meta": confirmed',
         'by hand with the agent\'s run script, e.g. src/wasm.rs needs a host shim). Verdict columns: exit code of `bin/check <id> --tier quick` with the patch',
         'applied to /repo (1 = VIOLATION with a natively confirmed witness, 2 = inconclusive - never "held", 0 = not seen), wall seconds in brackets.', '',
         '## Round 1 (30 changes)', '',
         '| seeded change | breaks | confirmed | check: exit (wall s) | what the check reported |', '|---|---|---|---|---|']
for name in sorted(r1):
    r = r1[name]
    lines.append('| %s | %s | %s | %s | %s |' % (name, r['property'], 'yes' if r.get('confirmed') else 'see meta', cells(r), detail(r)))
lines += ['', '## Round 2 (36 changes, agents were told which mechanisms round 1 had used and asked for different ones)', '',
          'Two passes: **first pass** = the checks as they were when the changes arrived (some runs overlapped with my edits; the early rows are the older code),',
          '**after strengthening** = the committed checks. A change counts as caught when at least one registered check exits 1.', '',
          '| seeded change | breaks | confirmed | first pass | after strengthening | what the check reported (after) |', '|---|---|---|---|---|---|']
n_first = n_after = 0
for name in sorted(r2a):
    a = r2a[name]
    b = r2b.get(name)
    c1 = any(v['exit'] == 1 for v in a['checks'].values())
    c2 = bool(b) and any(v['exit'] == 1 for v in b['checks'].values())
    n_first += c1
    n_after += c2
    lines.append('| %s | %s | %s | %s | %s | %s |' % (name, a['property'], 'yes' if (a.get('confirmed') or (b and b.get('confirmed'))) else 'see meta',
                                                    cells(a), cells(b) if b else 'not re-run', detail(b) if b else ''))
lines += ['', 'Round 2 totals: caught by at least one check in the first pass: %d / %d; after strengthening: %d / %d.' % (n_first, len(r2a), n_after, len(r2a))]
lines += ['', '## Round 3 (35 changes; agents knew the mechanisms of rounds 1 and 2)', '',
          'Run with the committed checks. 20 of these patches had been tried in a scratch worktree first and the checks strengthened (DESIGN.md 7.3 lists the',
          'first-contact outcome of each: 4 silent misses, 10 inconclusive); the rows below are the registered quick commands against the patch applied to /repo.', '',
          '| seeded change | breaks | confirmed | check: exit (wall s) | what the check reported |', '|---|---|---|---|---|']
n3 = 0
for name in sorted(r3):
    r = r3[name]
    n3 += any(v['exit'] == 1 for v in r['checks'].values())
    lines.append('| %s | %s | %s | %s | %s |' % (name, r['property'], 'yes' if r.get('confirmed') else 'see meta', cells(r), detail(r)))
lines += ['', 'Round 3 total: caught by at least one registered check: %d / %d.' % (n3, len(r3))]
open(os.path.join(SD, 'RESULTS.md'), 'w').write('\n'.join(lines) + '\n')

for recs, second in ((r1, None), (r2a, r2b), (r3, None)):
    for name, r in recs.items():
        d = os.path.join(SD, name)
        if not os.path.isdir(d) or name in ORIGIN:
            continue
        fin = (second or {}).get(name, r)
        notes = ''
        np_ = os.path.join(d, 'NOTES.md')
        if os.path.exists(np_):
            notes = open(np_).read()
        m = {'property': r['property'], 'origin': 'written by a fresh sub-agent given only the property text and a scratch worktree',
             'round': 1 if recs is r1 else (2 if recs is r2a else 3),
             'needs_to_manifest': (re.sub(r'\s+', ' ', notes)[:600] if notes else ''),
             'what_i_ran': {'confirmation_in_scratch_worktree': r.get('confirm'), 'confirmed': r.get('confirmed'),
                            'checks_with_patch_applied_to_repo': {c: {'exit': v['exit'], 'wall_s': v['wall_s'], 'violations': v['violations']} for c, v in fin['checks'].items()}},
             'caught_by': [c for c, v in fin['checks'].items() if v['exit'] == 1],
             'inconclusive_in': [c for c, v in fin['checks'].items() if v['exit'] == 2],
             'missed_by': [c for c, v in fin['checks'].items() if v['exit'] == 0]}
        if second is not None:
            m['first_pass'] = {c: v['exit'] for c, v in r['checks'].items()}
        json.dump(m, open(os.path.join(d, 'meta.json'), 'w'), indent=1)
print('\n'.join(lines[-3:]))
