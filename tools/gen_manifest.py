#!/usr/bin/env python3
"""Regenerates /verif/MANIFEST.json from the table below (kept in one place so it stays valid)."""
import json
import os

VERIF = os.path.dirname(os.path.dirname(os.path.abspath(__file__)))

CLAIMED = {
    'C07': dict(
        technique='symbolic execution of the crate MIR (mirsym) + SMT (z3/cvc5) over fully symbolic blocks; Kani on the GF kernel',
        text='Bounded model checking of the real `polynomials::division` (MIR of the current tree) with every byte of the block a free '
             'variable, for every (block length, generator) shape the current tree uses, against a bitwise LFSR reference for '
             'g(x)=prod(x-alpha^i); degree mapping checked on all 160 (version, level) cells. Holds for all block contents within the '
             'enumerated shapes; nothing is sampled except the translator-validation inputs.',
        note='Trusted: MIR parser/executor and ~10 library models (listed in evidence), the lut/xor term normaliser (validated each run by '
             'NOLUT-mode solver queries on 1-2 byte blocks, concrete differential against the native build, and model evaluation), '
             'z3 5.1/4.8.12, the oracle (cross-checked against the qrcode crate tables).',
        design='4/C07'),
}

NOT_YET = {}

NA = {
    'C13': 'not applicable to solver-based checking here: pixels are produced by resvg/usvg/tiny-skia (float rasteriser, XML parser, PNG codec '
           'in third-party crates) which neither Kani nor the MIR encoder reaches; fast_qr\'s own share of the pipeline carries none of the pixel-level claim',
}


def main():
    props = [json.loads(l) for l in open(os.path.join(VERIF, 'properties.jsonl'))]
    checks = []
    na = []
    for p in props:
        pid = p['id']
        if pid in CLAIMED:
            c = CLAIMED[pid]
            checks.append({
                'property_id': pid,
                'quick_cmd': 'bin/check %s --tier quick' % pid,
                'thorough_cmd': 'bin/check %s --tier thorough' % pid,
                'evidence_file': 'evidence/%s.json' % pid,
                'replay_cmd_template': 'bin/check %s --replay {path}' % pid,
                'engine': 'mirsym+smt' if 'kani' not in c.get('engine', '') else c['engine'],
                'level_claimed': {'category': 'model_checking', 'text': c['text'], 'design_ref': c['design']},
                'level_note': c['note'],
                'technique': c['technique'],
            })
        elif pid in NA:
            na.append({'property_id': pid, 'reason': NA[pid]})
        else:
            na.append({'property_id': pid, 'reason': NOT_YET.get(pid, 'check not built yet in this snapshot of /verif (engine slice under construction); not claimed until it runs')})
    m = {
        'version': 1,
        'setup_cmd': 'bin/setup',
        'hooks': {
            'guard': 'fast_qr_verif (rustc --cfg, used only in a scratch overlay copy of /repo; no source hook is committed in /repo)',
            'enable': 'checks copy /repo\'s working tree to a temp dir, append three #[cfg(any(kani, fast_qr_verif))] module declarations to the copy\'s src/lib.rs and build it with RUSTFLAGS="--cfg fast_qr_verif" / cargo kani',
            'baseline_off_cmd': 'cd /repo && cargo test --workspace --no-fail-fast --offline',
            'source_commits': [],
            'add_only': True,
        },
        'engines': [
            {'name': 'mirsym+smt', 'path': 'engine/', 'serves_properties': sorted(CLAIMED),
             'kind_free_text': 'own symbolic executor for rustc MIR (-Zunpretty=mir of the current tree) -> hash-consed bit-vector terms -> SMT-LIB2, decided by z3 (5.1 and 4.8.12) and cvc5'},
            {'name': 'kani', 'path': 'harness/kani/', 'serves_properties': [],
             'kind_free_text': 'Kani 0.68 / CBMC proof harnesses compiled inside a scratch overlay of the crate (scalar code only)'},
        ],
        'checks': checks,
        'not_applicable': na,
        'notes': 'Every check rebuilds its encoding from /repo (or $VERIF_REPO) on each run; exit 0 held / 1 VIOLATION (replayed natively first) / 2 INCONCLUSIVE (never reported as held) / 3 oracle fault.',
    }
    with open(os.path.join(VERIF, 'MANIFEST.json'), 'w') as fh:
        json.dump(m, fh, indent=1)
    print('MANIFEST.json: %d checks, %d not_applicable' % (len(checks), len(na)))


if __name__ == '__main__':
    main()
