#!/usr/bin/env python3
"""Regenerates /verif/MANIFEST.json from the table below (kept in one place so it stays valid)."""
import json
import os

VERIF = os.path.dirname(os.path.dirname(os.path.abspath(__file__)))

CLAIMED = {
    'C07': dict(
        technique='symbolic execution of the crate MIR (mirsym) + SMT (z3/cvc5) over fully symbolic blocks; Kani on the GF kernel',
        text='Bounded model checking of the real `polynomials::division` (MIR of the current tree) with every byte of the block a free '
             'variable, for every (block length, generator) shape the current tree uses, against a bitwise LFSR reference for '
             'g(x)=prod(x-alpha^i); degree mapping checked on all 160 (version, level) cells. Holds for all block contents within the '
             'enumerated shapes; nothing is sampled except the translator-validation inputs.',
        note='Trusted: MIR parser/executor and ~10 library models (listed in evidence), the lut/xor term normaliser (validated each run by '
             'NOLUT-mode solver queries on 1-2 byte blocks, concrete differential against the native build, and model evaluation), '
             'z3 5.1/4.8.12, the oracle (cross-checked against the qrcode crate tables).',
        design='4/C07'),
}


_X_NOTE = ('Trusted: MIR parser/executor, the library models and the term normaliser (validated every run: NOLUT-mode solver queries on small '
           'versions, concrete runs against the native build, evaluation of the symbolic result), z3 5.1/4.8.12, the ISO oracle (cross-checked '
           'with the qrcode crate tables). score::score is an uninterpreted stub, so the verdict holds whichever mask wins. Stage argument: '
           'QRCode::new/create_matrix hand stream, level, version, mask unchanged to place_on_matrix.')
_X_TECH = 'symbolic execution of the crate MIR (mirsym) of place_on_matrix per version with symbolic stream/level/mask + SMT (z3); Kani for scalar tables'

CLAIMED.update({
    'C03': dict(technique=_X_TECH,
                text='Bounded model checking of the real placement::place_on_matrix (default::create_matrix, place_on_matrix_data, the eight mask '
                     'sweeps, format info) for a concrete version with the whole codeword stream, the level and the mask option symbolic: every '
                     'function-pattern module equals the ISO value as a constant, size is 17+4v, the tail of the backing array is untouched. '
                     'Quick: 11 versions; thorough: all 40.',
                note=_X_NOTE, design='4/C03'),
    'C04': dict(technique=_X_TECH,
                text='Kani proves the 32-entry format table = BCH(15,5)(level,mask) xor 0x5412 and the version table = BCH(18,6) for all entries; '
                     'the matrix stage proves both format copies and both version copies sit at the ISO positions as functions of the symbolic '
                     '(level, mask), that the applied mask is the reported one (also when the stubbed score picks it) and qr.mask/size fields.',
                note=_X_NOTE + ' The ecl/version/mode fields and the default level are glue (QRCode::new), covered by the gate run when present.',
                design='4/C04'),
    'C05': dict(technique='Kani/CBMC proof harnesses over a fully symbolic usize length (Version::get vs ISO capacity reference)',
                text='24 Kani harnesses: for every mode x level and every usize length, Version::get returns exactly the least version whose ISO '
                     'capacity holds the payload (None beyond V40), and every larger version still holds it (so forced larger versions cannot make '
                     'the terminator subtraction wrap).',
                note='Trusted: Kani/CBMC, the in-harness ISO reference (Table 9 data + geometry formula, cross-checked in iso.py). Unwinding assertions on.',
                design='4/C05'),
    'C08': dict(technique=_X_TECH,
                text='For a concrete version and symbolic stream/level/mask: every data module equals stream bit k (zig-zag order) xor the ISO Table 10 '
                     'condition of the applied mask, format modules equal the BCH word, every other module is a constant - hence two builds differ '
                     'exactly where the two mask conditions differ, on data modules plus format modules.',
                note=_X_NOTE, design='4/C08'),
    'C09': dict(technique='Kani/CBMC proof harness over a symbolic byte buffer with symbolic length',
                text='best_encoding equals the ISO classification for every byte string of length 0..24 (quick) / 0..96 (thorough), every byte value at '
                     'every position; classifier and value table agree on all 256 bytes.',
                note='Trusted: Kani/CBMC; strings longer than the bound are outside the claim.', design='4/C09'),
    'C02': dict(technique=_X_TECH + '; structure() layout with division uninterpreted',
                text='Kani proves the block-layout, data-codeword, total-codeword, remainder-bit and generator-degree tables equal ISO Table 9 for all 160 '
                     'cells. The real polynomials::structure is run for all 160 cells with every data codeword symbolic and division stubbed: call b gets '
                     'exactly ISO block b, data and EC codewords are interleaved in the ISO order, bytes past the total are zero. With the real division, '
                     'all syndromes of every block normalise to 0 on small cells. The matrix stage shows stream bit k lands on data module k (zig-zag) '
                     'xor mask and remainder bits are 0 before masking.',
                note=_X_NOTE + ' Codeword validity for cells without a direct syndrome query is the composition C07 (remainder, all shapes) + layout; '
                     'the corruption-recovery corollary is RS theory about a decoder not in this crate and is not checked.',
                design='4/C02'),
    'C06': dict(technique='symbolic execution of the crate MIR (mirsym) of encode::encode per cell with symbolic payload + SMT (z3 QF_BV); inductive step of push_bits; Kani for cci_bits',
                text='The real encode() is executed per (version, level, mode, length) cell with every payload byte symbolic (assumed in the mode alphabet) and '
                     'each data codeword is proved equal to the ISO 7.4 bit stream (mode indicator, count, packed characters, terminator, bit padding, pad '
                     'codewords) built by an independent encoder on terms; every panic/overflow obligation met is discharged. CompactQR::push_bits is checked '
                     'as one inductive step from an arbitrary valid buffer state for every alignment 0..24 and width 0..16.',
                note='Lengths are enumerated (boundary lengths per cell), contents are symbolic; numeric/alphanumeric payloads above 200 (quick) / 700 (thorough) characters are windowed (first 6 and last 12 characters symbolic, the middle a seed-chosen string). A cell on which encode() panics on every path is replayed natively and reported. Trusted: MIR executor, Vec/slice/iterator models, '
                     'term normaliser (validated by concrete runs against the native build), z3 5.1.',
                design='4/C06'),
    'C01': dict(technique='symbolic execution of the crate MIR (mirsym) of the whole QRCode::new pipeline per cell + ISO reference decoder on terms + SMT (z3 QF_BV); gate/glue contracts with uninterpreted stages',
                text='About 100 end-to-end cells (quick): the real pipeline (encode, structure, division, blank symbol, placement, masking, format info) is '
                     'executed with every payload character symbolic within its class and the mask option symbolic; the ISO reference decoder applied to the '
                     'resulting module terms (format BCH decode, unmask, zig-zag read-out, de-interleave, segment parse) must return the mode, the count and '
                     'every character, followed by a terminator. Gate and glue contracts prove for symbolic options and all 40 versions that QRCode::new / '
                     'create_matrix wire the stages with the right arguments, so the per-stage checks compose for the cells not run end-to-end.',
                note=_X_NOTE + ' End-to-end cells are enumerated (lengths, classes, option combinations); everything else is by composition of C06/C02/C07/matrix stage/gate/glue.',
                design='4/C01'),
    'C10': dict(technique='symbolic execution of the crate MIR with overflow/debug assertions on: every assert/panic/unwrap/unreachable met under a path condition becomes an SMT obligation; Kani built-in checks',
                text='Every arithmetic-overflow, bounds, division and debug assertion and every panic!/unwrap/unreachable! site instance met while executing '
                     'QRCode::new cells (incl. inputs far beyond capacity), place_on_matrix, structure+division and encode on symbolic contents is discharged as '
                     '"path condition implies cannot fail"; Kani proves the same for best_encoding (<= 24 bytes), Version::get (every usize) and the GF kernel, '
                     'with unwinding assertions; the overflow obligations of matrix_score_squares and dark_module_score are discharged with every data module symbolic on V40 and V1 (counters too narrow for the largest symbol). A loop with a symbolic trip count would be an unsupported construct (none met).',
                note='Shapes (lengths, versions, option combinations) are enumerated; contents are symbolic. Forced modes that do not contain the input panic by design and are excluded.',
                design='4/C10'),
    'C11': dict(technique='symbolic execution of the crate MIR of score::* on all-symbolic data modules and of the selection loop with score uninterpreted + SMT (z3 QF_BV); accumulation-chain decomposition',
                text='score::line for every row and column, matrix_score_squares and dark_module_score are proved equal to the documented penalty terms for every '
                     'assignment of the data modules (V1-V2 quick, V1-V6 thorough); the selection loop is proved to rank candidate k = placed codewords masked '
                     'with pattern k together with the transpose OF THAT CANDIDATE, to emit the first minimiser and to let a forced mask override. '
                     'This check found the unmasked-transpose defect of the pinned tree (fixed in /repo 3072ea0).',
                note='The un-stubbed end-to-end argmin query is beyond the solver; it is the conjunction of the two parts. The run-length term of score::line is decided for lines up to 29 modules (V1-V3) only. Trusted: executor, models, z3.',
                design='4/C11'),
    'C12': dict(technique='symbolic execution of the crate MIR of SvgBuilder (default + setters + to_str) producing a symbolic string (literal, symbolic and guarded pieces) + SMT (z3) + expat on the skeleton',
                text='The real SVG builder is executed with every module value, every RGBA byte and every character of the image string symbolic. Checked for all '
                     'valuations: the document skeleton is well-formed (expat), no symbolic character can be < & or " (solver), conditional pieces are plain path data; '
                     'square viewBox/background of side size+2*margin; per layer exactly one sub-path per module, present iff that module is dark, inside the cell '
                     'anchored at (column+margin,row+margin); colour text is #rrggbb or #rrggbbaa iff alpha<255 as a function of the bytes; un-escaping the href '
                     'returns the image string for every character value. Found the raw-href defect of the pinned tree (fixed in /repo 62c2cec).',
                note='Cells (version, margin incl. 95 and 990 for 3- and 4-digit coordinates, layer list, image length) are enumerated; within a cell everything else is symbolic. If the href pieces of one character depend on other characters the un-escaping clause is evaluated under derived baselines and a pass is reported as inconclusive. Image characters are printable ASCII '
                     '(control characters cannot be represented in XML 1.0). Trusted: executor, String/format! models (validated against the native output per cell), expat.',
                design='4/C12'),
    'C14': dict(technique='classification of every static in the crate MIR (frame condition) + symbolic execution of all setter histories and of build/render runs whose outputs must be functions of their arguments',
                text='No static mut / interior-mutable static / thread_local / randomly seeded container exists in the MIR of the crate (400+ functions scanned), so every executor run is a function of its '
                     'arguments; for every call history of <= 4 calls over {mode, ecl, version, mask, build} on ONE builder followed by a build, with symbolic setter arguments and every build returning an arbitrary '
                     'Ok/Err with arbitrary reported options, each build hands QRCode::new the input and exactly the option state a fresh builder with the same final settings has; to_str and SvgBuilder::to_str '
                     'leave the QRCode untouched. If hidden state appears (statics, thread-locals, HashMap), its content is unmodellable and the verdict comes from native replays: histories, 8 threads, '
                     'large-then-small builds and renderings on one thread, repeated builds.',
                note='Thread schedules are NOT explored (neither engine supports concurrency): schedule independence is an implication of the absence of shared mutable state, not a verdict.',
                design='4/C14'),
    'C16': dict(technique='symbolic execution of the crate MIR of QRCode::to_str with every module symbolic + SMT (z3)',
                text='For each of the 40 sizes, with every module value symbolic and arbitrary type bits, every character of the rendered text equals the faithful half-block '
                     'rendering of the matrix with a one-module light border ((size+1)/2+1 lines of size+2 characters from the four allowed symbols); the QR code is not modified.',
                note='Trusted: executor, String model (validated against the native output per size).', design='4/C16'),
    'C17': dict(technique='symbolic execution of the crate MIR of src/wasm.rs (compiled on the host through the overlay) + SMT (z3); QRCode::new / to_str uninterpreted for the glue contracts',
                text='Colour setters: for every ASCII string of length 0..10 and every well-formed UTF-8 string of 0..9 bytes (bytes symbolic under a validity DFA) no panic obligation is satisfiable and exactly 4 components are stored; qr_svg: for all 8 option states '
                     '(size/position/image set or not) no panic and the builder is configured term-for-term with the option values, result is the rendering iff the build succeeded; '
                     'qr: size*size value bits of the QR code QRCode::new returns with default options, [] on Err; both also with a content of arbitrary length (symbolic length, bytes unmodelled): no decision is taken on the content before the build. Found two defects of the pinned tree (fixed in /repo 352d767, b5bc324).',
                note='The wasm32 target and the wasm-bindgen glue are outside; colour strings longer than 10 characters / 9 non-ASCII bytes are outside. Trusted: executor, byte-level String/str model (UTF-8 DFA validated against a reference decoder), Vec/Option models, vec! literal model.',
                design='4/C17'),
    'C18': dict(technique='symbolic execution of the crate MIR of SvgBuilder::image; default placement in an exact fixed-point (dyadic) model of f64 decided in QF_BV, overrides as identities between FP terms (z3 QF_FP)',
                text='Default placement, all 40 versions x 3 frame shapes with the margin a symbolic usize (<= 2^20): frame square, centred, module-aligned, side < 40% of the symbol, '
                     'clear of the finder patterns, inside the symbol, independent of the margin and non-decreasing in the version; image centred in the frame and not larger. '
                     'Overrides (symbolic f64 size/gap/position): image side is the requested size, frame side is size+2*gap or one module less, frame x/y = position - side/2, '
                     'image centred in the frame - as exact identities between double-precision formulas.',
                note='The fixed-point model is exact because every intermediate value is a multiple of 2^-8 below 2^40 (each division records an exactness side condition that the solver discharges). '
                     'The decimal text of the numbers is not modelled; "centred" under overrides holds up to the rounding of the stated formulas.',
                design='4/C18'),
    'C19': dict(technique='symbolic execution of the crate MIR of SvgBuilder::to_file / ImageBuilder::to_file with environment stubs (arbitrary Ok/Err per I/O call) + SMT (z3)',
                text='For every path (unknown content, symbolic length) and every combination of outcomes of the open (File::create / OpenOptions / fs::write; content surviving from before the open is a free boolean unless the open truncates), write_all (also through BufWriter) and Pixmap::save_png: Ok(()) is returned iff every call succeeded, write_all receives exactly the '
                     'rendering\'s bytes and only after a successful create, every error is returned as the IoError variant carrying the failing call\'s error, converts to ConvertError::Io, '
                     'and no panic obligation exists on any path (incl. char-boundary obligations of any slicing of the path). The stub contract is validated by native runs (ok path, existing longer file, missing directory, path is a directory, /dev/full).',
                note='Fault kinds are abstracted to "this call returned Err"; std::fs / tiny-skia contracts are assumed. Panics inside to_pixmap (third-party rasteriser) are outside.',
                design='4/C19'),
    'C15': dict(technique=_X_TECH,
                text='For a concrete version and symbolic stream/level/mask the type bits of every module equal the ISO region label as a constant, and '
                     'the number of data labels equals 8*total codewords + remainder bits.',
                note=_X_NOTE, design='4/C15'),
})

NOT_YET = {}

NA = {
    'C13': 'not applicable to solver-based checking here: pixels are produced by resvg/usvg/tiny-skia (float rasteriser, XML parser, PNG codec '
           'in third-party crates) which neither Kani nor the MIR encoder reaches; fast_qr\'s own share of the pipeline carries none of the pixel-level claim',
}


def main():
    props = [json.loads(l) for l in open(os.path.join(VERIF, 'properties.jsonl'))]
    checks = []
    na = []
    for p in props:
        pid = p['id']
        if pid in CLAIMED:
            c = CLAIMED[pid]
            checks.append({
                'property_id': pid,
                'quick_cmd': 'bin/check %s --tier quick' % pid,
                'thorough_cmd': 'bin/check %s --tier thorough' % pid,
                'evidence_file': 'evidence/%s.json' % pid,
                'replay_cmd_template': 'bin/check %s --replay {path}' % pid,
                'engine': 'kani' if pid in ('C05', 'C09') else 'mirsym+smt',
                'level_claimed': {'category': 'model_checking', 'text': c['text'], 'design_ref': c['design']},
                'level_note': c['note'],
                'technique': c['technique'],
            })
        elif pid in NA:
            na.append({'property_id': pid, 'reason': NA[pid]})
        else:
            na.append({'property_id': pid, 'reason': NOT_YET.get(pid, 'check not built yet in this snapshot of /verif (engine slice under construction); not claimed until it runs')})
    m = {
        'version': 1,
        'setup_cmd': 'bin/setup',
        'hooks': {
            'guard': 'fast_qr_verif (rustc --cfg, used only in a scratch overlay copy of /repo; no source hook is committed in /repo)',
            'enable': 'checks copy /repo\'s working tree to a temp dir, append three #[cfg(any(kani, fast_qr_verif))] module declarations to the copy\'s src/lib.rs and build it with RUSTFLAGS="--cfg fast_qr_verif" / cargo kani',
            'baseline_off_cmd': 'cd /repo && cargo test --workspace --no-fail-fast --offline',
            'source_commits': [],
            'add_only': True,
        },
        'engines': [
            {'name': 'mirsym+smt', 'path': 'engine/', 'serves_properties': sorted(p for p in CLAIMED if p not in ('C05', 'C09')),
             'kind_free_text': 'own symbolic executor for rustc MIR (-Zunpretty=mir of the current tree) -> hash-consed bit-vector terms -> SMT-LIB2, decided by z3 (5.1 and 4.8.12) and cvc5'},
            {'name': 'kani', 'path': 'harness/kani/', 'serves_properties': ['C02', 'C03', 'C04', 'C05', 'C06', 'C09'],
             'kind_free_text': 'Kani 0.68 / CBMC proof harnesses compiled inside a scratch overlay of the crate (scalar code only)'},
        ],
        'checks': checks,
        'not_applicable': na,
        'notes': 'Every check rebuilds its encoding from /repo (or $VERIF_REPO) on each run; exit 0 held / 1 VIOLATION (replayed natively first) / 2 INCONCLUSIVE (never reported as held) / 3 oracle fault.',
    }
    with open(os.path.join(VERIF, 'MANIFEST.json'), 'w') as fh:
        json.dump(m, fh, indent=1)
    print('MANIFEST.json: %d checks, %d not_applicable' % (len(checks), len(na)))


if __name__ == '__main__':
    main()
