"""Validation of the executor's library models against the real standard library: every function of
harness/replay/libtest.rs is run natively and through the MIR executor (concretely) on the same inputs.
usage: python3 -m engine.lib_selftest [-v]"""
import random
import sys
from . import overlay as OV, mirsym as M, terms as T
from .mirsym import SliceRef, L

TESTS = ['iter_adaptors', 'iter_consumers', 'option', 'ascii', 'ints', 'slices', 'cells', 'str', 'utf8']


def inputs(name, rnd):
    out = []
    for t in range(14):
        n = rnd.randrange(0, 9)
        ln = rnd.choice([0, 1, 2, 3, 5, 8, 9])
        if name == 'str':
            base = rnd.choice([b'abxyz', b'#abcq', b'data:yz', b'', b'a', b'zz', b'ab', b'#'])
            a = bytes(base) if t < 8 else bytes(rnd.choice(b'ab#dqyz0123') for _ in range(ln))
        elif name == 'utf8':
            pool = ['ab', 'é', '€', 'fé', '1f', 'ff00', '\U0001F600', 'z']
            s = ''.join(rnd.choice(pool) for _ in range(rnd.randrange(0, 4))).encode('utf-8')
            a = s if t % 3 else bytes(rnd.randrange(256) for _ in range(ln))
        elif name == 'ascii':
            a = bytes(rnd.randrange(256) for _ in range(max(1, ln)))
        else:
            a = bytes(rnd.choice([rnd.randrange(256), rnd.choice(b'0123456789'), 0, 255, n]) for _ in range(ln))
        out.append((a, n))
    return out


def run(verbose=False, ov=None, mir=None, native_path=None):
    own = ov is None
    if own:
        ov = OV.Overlay()
        mir = ov.mir('svg')
        native_path = ov.native('svg')
    prog = M.Program(mir, ov.dir)
    native = OV.Native(native_path)
    rnd = random.Random(20261001)
    problems = []
    cases = 0
    sym_cases = [0]
    sym_unsupported = {}
    for name in TESTS:
        f = prog.resolve('lt_' + name)
        if f is None:
            problems.append('%s: function lt_%s not found in the MIR' % (name, name))
            continue
        for a, n in inputs(name, rnd):
            ans = native.ask('libtest %s %s %d' % (name, OV.hexs(a), n))
            cases += 1
            I = M.Interp(prog)
            buf = I.mk(list(a))
            try:
                r = I.call_fn(f, [SliceRef(buf, 0, len(a)), n])
            except M.ConcretePanic as e:
                got = 'PANIC'
                if not ans.startswith('PANIC'):
                    problems.append('%s(%s, %d): executor panics (%s), native %s' % (name, a.hex(), n, e, ans[:60]))
                continue
            except M.Unsupported as e:
                problems.append('%s(%s, %d): unsupported: %s' % (name, a.hex(), n, e))
                break
            if ans.startswith('PANIC'):
                problems.append('%s(%s, %d): native panics (%s), executor returns' % (name, a.hex(), n, ans[:60]))
                continue
            vals = list(r[0]) if (type(r) is L and r.tag == 'Vec') else None
            if vals is None or any(type(x) is not int for x in vals):
                problems.append('%s(%s, %d): executor result is not a concrete vector: %r' % (name, a.hex(), n, vals if vals is None else vals[:5]))
                continue
            want = [int(x) for x in ans.split(',')] if ans else []
            if vals != want:
                k = next((i for i in range(min(len(vals), len(want))) if vals[i] != want[i]), min(len(vals), len(want)))
                problems.append('%s(%s, %d): entry %d is %s, native %s (lengths %d/%d)' % (
                    name, a.hex(), n, k, vals[k] if k < len(vals) else None, want[k] if k < len(want) else None, len(vals), len(want)))
            elif verbose:
                print('ok', name, a.hex(), n, len(vals))
            # the same call with the bytes symbolic (the merge / ite side of the models): the result evaluated under this
            # assignment must again be the native answer
            if name in ('str',):
                continue            # builds on from_utf8(..).unwrap_or(""): symbolic validity makes the whole text conditional
            T.reset()
            I2 = M.Interp(prog)
            xs = [T.var('b%d' % i, 8) for i in range(len(a))]
            try:
                r2 = I2.call_fn(f, [SliceRef(I2.mk(list(xs)), 0, len(a)), n])
            except (M.Unsupported, M.ConcretePanic) as e:
                sym_unsupported[name] = str(e)[:100]
                continue
            except TypeError as e:
                sym_unsupported[name] = 'type error (poisoned value): %s' % str(e)[:80]
                continue
            if r2 is M.DEAD or not (type(r2) is L and r2.tag == 'Vec'):
                sym_unsupported[name] = 'no vector result'
                continue
            env = {'b%d' % i: a[i] for i in range(len(a))}
            cache = {}
            got = []

            def walk(items, guard_ok=True):
                for it in items:
                    if type(it) is M.Guarded:
                        g = it.cond if type(it.cond) is int else T.evaluate(it.cond, env, cache)
                        if g:
                            walk(it.items)
                    else:
                        got.append(it if type(it) is int else T.evaluate(it, env, cache))
            try:
                walk(list(r2[0]))
            except Exception as e:
                problems.append('%s(%s, %d) symbolic: cannot evaluate the result (%s)' % (name, a.hex(), n, e))
                continue
            sym_cases[0] += 1
            if got != want:
                k = next((i for i in range(min(len(got), len(want))) if got[i] != want[i]), min(len(got), len(want)))
                problems.append('%s(%s, %d) symbolic: entry %d evaluates to %s, native %s (lengths %d/%d)' % (
                    name, a.hex(), n, k, got[k] if k < len(got) else None, want[k] if k < len(want) else None, len(got), len(want)))
    native.close()
    run.sym_cases = sym_cases[0]
    run.sym_unsupported = sym_unsupported
    return problems, cases


if __name__ == '__main__':
    probs, cases = run('-v' in sys.argv)
    for p in probs:
        print('LIB-MODEL-MISMATCH:', p)
    print('library self-test: %d concrete cases, %d symbolic cases, %d problems; symbolic mode unsupported for: %s' % (
        cases, run.sym_cases, len(probs), run.sym_unsupported))
    sys.exit(1 if probs else 0)
