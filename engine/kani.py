"""Engine K: run Kani proof harnesses (harness/kani/*.rs) inside the scratch overlay and parse the verdicts."""
import os
import re
import subprocess
import time


class KaniResult:
    def __init__(self, name):
        self.name = name
        self.status = 'missing'      # success | failed | error | timeout | missing
        self.time_s = 0.0
        self.checks = 0
        self.failed = 0
        self.cover_sat = 0
        self.cover_total = 0
        self.failed_desc = []
        self.values = None           # concrete playback values of the first failed assertion (list of ints)
        self.raw_values = None

    def as_dict(self):
        return {'harness': self.name, 'status': self.status, 'time_s': round(self.time_s, 2), 'checks': self.checks,
                'failed_checks': self.failed, 'cover': [self.cover_sat, self.cover_total], 'failed': self.failed_desc[:3]}


def _parse(out, names, results):
    """parse (possibly multi-threaded terse) cargo-kani output"""
    owner = {}      # thread id -> harness
    cur = None
    lines = out.splitlines()
    single = None
    for i, l in enumerate(lines):
        m = re.match(r'^(?:Thread (\d+): )?Checking harness ([\w:]+)\.\.\.', l)
        if m:
            h = m.group(2).split('::')[-1]
            if m.group(1) is not None:
                owner[m.group(1)] = h
            else:
                single = h
                cur = h
            continue
        m = re.match(r'^Thread (\d+):\s*$', l)
        if m:
            cur = owner.get(m.group(1))
            continue
        if cur is None or cur not in results:
            continue
        r = results[cur]
        m = re.match(r'^ \*\* (\d+) of (\d+) failed', l)
        if m:
            r.failed = int(m.group(1))
            r.checks = int(m.group(2))
            continue
        m = re.match(r'^ \*\* (\d+) of (\d+) cover properties satisfied', l)
        if m:
            r.cover_sat, r.cover_total = int(m.group(1)), int(m.group(2))
            continue
        if l.startswith('Failed Checks:'):
            r.failed_desc.append(l[len('Failed Checks:'):].strip())
            continue
        if l.startswith('VERIFICATION:- SUCCESSFUL'):
            r.status = 'success'
        elif l.startswith('VERIFICATION:- FAILED'):
            r.status = 'failed' if r.failed else 'error'
        m = re.match(r'^Verification Time: ([0-9.]+)s', l)
        if m:
            r.time_s = float(m.group(1))
    # unwinding failures or CBMC errors show up as failed checks named "unwinding assertion"
    for r in results.values():
        if r.status == 'failed' and r.failed_desc and all('unwinding' in d for d in r.failed_desc):
            r.status = 'error'


def _parse_playback(out):
    """first `Check for \\`assertion\\`` block -> list of ints (little endian)"""
    blocks = out.split('Concrete playback unit test for')
    for b in blocks[1:]:
        if 'Check for `assertion`' not in b and 'Check for `' in b and 'cover' in b.split('Check for `')[1][:8]:
            continue
        vals = []
        raw = []
        for m in re.finditer(r'vec!\[([0-9, ]*)\],', b):
            bs = [int(x) for x in m.group(1).split(',') if x.strip()]
            raw.append(bs)
            vals.append(sum(x << (8 * i) for i, x in enumerate(bs)))
        return vals, raw
    return None


def run(ov, names, features='svg', jobs=16, timeout=1500, playback=True):
    """-> (dict name -> KaniResult, wall seconds, build ok)"""
    results = {n: KaniResult(n) for n in names}
    tgt = os.path.join(ov.dir, 'tgt-kani')
    cmd = ['cargo', 'kani', '--lib', '--target-dir', tgt, '--output-format', 'terse']
    if features:
        cmd += ['--features', features]
    if len(names) > 1:
        cmd += ['-j', str(min(jobs, len(names)))]
    for n in names:
        cmd += ['--harness', n]
    t0 = time.time()
    try:
        r = subprocess.run(cmd, cwd=ov.dir, env=ov.env(), capture_output=True, text=True, timeout=timeout)
        out = r.stdout
    except subprocess.TimeoutExpired as e:
        out = (e.stdout or b'').decode(errors='replace') if isinstance(e.stdout, bytes) else (e.stdout or '')
        for x in results.values():
            x.status = 'timeout'
        _parse(out, names, results)
        return results, time.time() - t0, True, out[-3000:]
    wall = time.time() - t0
    if 'Checking harness' not in out:
        return results, wall, False, (r.stderr or '')[-4000:]
    _parse(out, names, results)
    if playback:
        for n, res in results.items():
            if res.status == 'failed':
                cmd2 = ['cargo', 'kani', '--lib', '--target-dir', tgt, '--output-format', 'terse', '-Z', 'concrete-playback',
                        '--concrete-playback=print', '--harness', n]
                if features:
                    cmd2 += ['--features', features]
                try:
                    r2 = subprocess.run(cmd2, cwd=ov.dir, env=ov.env(), capture_output=True, text=True, timeout=min(timeout, 600))
                    pv = _parse_playback(r2.stdout)
                    if pv is not None:
                        res.values, res.raw_values = pv
                except subprocess.TimeoutExpired:
                    res.values = None
    return results, wall, True, ''
