"""Hash-consed bit-vector term DAG with the normal forms described in DESIGN.md 2.3.2.

Values handed around by the interpreter are either Python ints (concrete, already
reduced modulo 2^w) or `Term` objects.  Every constructor takes the width `w`
explicitly, accepts ints or Terms and returns an int whenever the result is a
constant.  Booleans are width-1 bit-vectors.

Normal forms:
  * constant folding and known-bits folding (a term all of whose bits are known
    becomes an int; comparisons decidable from known bits fold);
  * `lut(T, x)`: a table applied to a base term of width <= 8; any operation whose
    operands are constants / luts over the same base / the base itself is folded
    into a lut by evaluating the operation on all 2^k base values (exhaustive
    evaluation of the operation's own semantics, not a sample);
  * xor/and/or flattened, sorted, duplicates cancelled/absorbed;
  * ite with equal arms, constant guards, ite(c,x,x^y) -> x ^ ite(c,0,y).

`RAW` mode (set_raw(True)) switches every rewrite off except constant folding so
that the solver sees the un-normalised term; used for cross-validation.
"""
import itertools

RAW = False
NOLUT = False
LINEAR = False     # distribute GF(2)-linear tables over xor (used for syndrome computations)
_linear_cache = {}


def set_linear(v):
    global LINEAR
    LINEAR = bool(v)


def _is_linear(tbl):
    r = _linear_cache.get(id(tbl))
    if r is None:
        n = len(tbl)
        r = tbl[0] == 0
        if r:
            for i in range(1, n):
                low = i & -i
                if i != low and tbl[i] != tbl[low] ^ tbl[i ^ low]:
                    r = False
                    break
        _linear_cache[id(tbl)] = r
    return r


def set_raw(v):
    global RAW
    RAW = bool(v)


def set_nolut(v):
    """keep every rewrite except lut folding/composition (the solver then has to do the table reasoning)"""
    global NOLUT
    NOLUT = bool(v)


class Term:
    __slots__ = ('op', 'w', 'args', 'val', 'id', 'k0', 'k1', '_hash', 'depth', 'ub')

    def __repr__(self):
        return 't%d:%s/%d' % (self.id, self.op, self.w)

    def __bool__(self):
        raise TypeError('symbolic term used as a Python bool: %r' % (self,))

    def __index__(self):
        raise TypeError('symbolic term used as a Python int: %r' % (self,))

    def __eq__(self, other):
        return self is other

    def __ne__(self, other):
        return self is not other

    def __hash__(self):
        return self.id


_table = {}
_counter = itertools.count(1)
_luts = {}          # tuple -> tuple (interned tables)
_vars = {}          # name -> Term
VAR_RANGE = {}      # name -> exclusive upper bound assumed for the variable (enum discriminants)


def reset():
    """Forget every term (used between independent jobs to bound memory)."""
    global _counter
    _linear_cache.clear()
    _table.clear()
    _luts.clear()
    _vars.clear()
    VAR_RANGE.clear()
    _counter = itertools.count(1)


def n_terms():
    return len(_table)


def _mask(w):
    return (1 << w) - 1


def is_term(x):
    return isinstance(x, Term)


def _mk(op, w, args, val=None, k0=0, k1=0):
    key = (op, w, tuple(a.id if isinstance(a, Term) else a for a in args), val)
    t = _table.get(key)
    if t is not None:
        return t
    t = Term()
    t.op = op
    t.w = w
    t.args = tuple(args)
    t.val = val
    t.id = next(_counter)
    t.k0 = k0
    t.k1 = k1
    t.ub = ((1 << w) - 1) & ~k0        # numeric upper bound (interval domain); constructors may tighten it
    d = 0
    for a in args:
        if isinstance(a, Term) and a.depth >= d:
            d = a.depth + 1
    t.depth = d
    _table[key] = t
    return t


def _fin(op, w, args, val=None, k0=0, k1=0):
    """Create node unless all bits are known."""
    m = _mask(w)
    k0 &= m
    k1 &= m
    if (k0 | k1) == m and not RAW:
        return k1
    return _mk(op, w, args, val, k0, k1)


def var(name, w, below=None):
    t = _vars.get(name)
    if t is not None:
        assert t.w == w, (name, t.w, w)
        return t
    k0 = 0
    if below is not None:
        VAR_RANGE[name] = below
        # bits above the highest possible value are known zero
        hb = max(below - 1, 0).bit_length()
        k0 = _mask(w) & ~_mask(hb)
    t = _mk('var', w, (), name, k0, 0)
    if below is not None:
        _tighten(t, max(below - 1, 0))
    _vars[name] = t
    return t


def all_vars():
    return dict(_vars)


def const_term(w, v):
    """Explicit constant node (only used inside args)."""
    v &= _mask(w)
    return _mk('const', w, (), v, _mask(w) & ~v, v)


def _c(x, w):
    """operand -> Term"""
    if isinstance(x, Term):
        assert x.w == w, ('width mismatch', x, w)
        return x
    return const_term(w, x)


def kb(x, w):
    """(known-zero mask, known-one mask)"""
    if isinstance(x, Term):
        return x.k0, x.k1
    x &= _mask(w)
    return _mask(w) & ~x, x


def umin(x, w):
    return kb(x, w)[1]


def umax(x, w):
    if isinstance(x, Term):
        return x.ub
    return x & _mask(w)


def _tighten(t, ub):
    """record a numeric upper bound for a freshly built node"""
    if isinstance(t, Term) and ub < t.ub:
        t.ub = ub
        # bits above the bound's highest bit are known zero
        hb = ub.bit_length()
        t.k0 |= _mask(t.w) & ~_mask(hb)
    return t


# ---------------------------------------------------------------- lut support

def _intern_table(tbl):
    tbl = tuple(tbl)
    t = _luts.get(tbl)
    if t is None:
        _luts[tbl] = tbl
        t = tbl
    return t


def _as_fn_of(x, w, base):
    """If x (width w) is expressible as table[base], return the table (list of ints)."""
    n = 1 << base.w
    if not isinstance(x, Term):
        return [x & _mask(w)] * n
    if x is base:
        return list(range(n))
    lc = _lutc(x)
    if lc is not None and lc[0].args[0] is base:
        k = lc[1]
        return [v ^ k for v in lc[0].val]
    if x.op == 'zext' and x.args[0] is base:
        return list(range(n))
    if x.op in ('eq',) and x.args[0] is base and x.args[1].op == 'const':
        k = x.args[1].val
        return [1 if i == k else 0 for i in range(n)]
    if x.op == 'eq' and x.args[1] is base and x.args[0].op == 'const':
        k = x.args[0].val
        return [1 if i == k else 0 for i in range(n)]
    if x.op == 'not' and x.w == 1:
        t = _as_fn_of(x.args[0], 1, base)
        if t is not None:
            return [1 - v for v in t]
    return None


def _lutc(x):
    """x is lut or xor(lut, const) -> (lut node, const) else None"""
    if x.op == 'lut':
        return x, 0
    if x.op == 'xor' and len(x.args) == 2 and x.args[0].op == 'lut' and x.args[1].op == 'const':
        return x.args[0], x.args[1].val
    return None


def _lut_base(x):
    if isinstance(x, Term):
        lc = _lutc(x)
        if lc is not None:
            return lc[0].args[0]
        if x.op == 'zext':
            lc = _lutc(x.args[0])
            if lc is not None:
                return lc[0].args[0]
    return None


def _feasible(base, i):
    """is value i consistent with base's known bits / declared range"""
    if i & base.k0:
        return False
    if (~i) & base.k1:
        return False
    if i > base.ub:
        return False
    return True


def lut(tbl, base, w):
    """table[base]; len(tbl) == 2**base.w, base.w <= 8 (RAW keeps it a node)."""
    if not isinstance(base, Term):
        return tbl[base] & _mask(w)
    n = len(tbl)
    assert base.w <= 8 and n == (1 << base.w), (base, n)
    m = _mask(w)
    if not RAW and not NOLUT:
        lc = _lutc(base)
        if lc is not None:
            k = lc[1]
            return lut([tbl[v ^ k] for v in lc[0].val], lc[0].args[0], w)
        # base = simple function of another <=8-bit term: and/or/xor with a constant, constant shifts, not
        bop = base.op
        if bop in ('and', 'or', 'xor') and len(base.args) == 2 and base.args[1].op == 'const':
            k = base.args[1].val
            if bop == 'and':
                return lut([tbl[i & k] for i in range(n)], base.args[0], w)
            if bop == 'or':
                return lut([tbl[i | k] for i in range(n)], base.args[0], w)
            return lut([tbl[i ^ k] for i in range(n)], base.args[0], w)
        if bop in ('shl', 'lshr') and base.args[1].op == 'const':
            sh = base.args[1].val
            bm = _mask(base.w)
            if bop == 'shl':
                return lut([tbl[(i << sh) & bm] for i in range(n)], base.args[0], w)
            return lut([tbl[i >> sh] for i in range(n)], base.args[0], w)
        if bop == 'not':
            bm = _mask(base.w)
            return lut([tbl[bm & ~i] for i in range(n)], base.args[0], w)
        if LINEAR and bop == 'xor':
            tt = tbl if isinstance(tbl, tuple) else tuple(tbl)
            tt = _intern_table(tt)
            if _is_linear(tt):
                return _ac('xor', w, [lut(tt, _u(x), w) if x.op != 'const' else tt[x.val] & m for x in base.args])
    allfeas = (base.k0 | base.k1) == 0 and base.ub >= n - 1
    if not RAW:
        if allfeas:
            feas = tbl
        else:
            feas = [tbl[i] for i in range(n) if _feasible(base, i)]
        if feas:
            f0 = feas[0] & m
            same = True
            for v in feas:
                if (v & m) != f0:
                    same = False
                    break
            if same:
                return f0
        if n == (1 << w) and w == base.w and tbl[1 % n] == 1 % n and all(tbl[i] == i for i in range(n)):
            return base
    if not RAW and not NOLUT:
        # canonical form: the first selectable entry is 0, the rest of the constant is an xor operand
        first = (feas[0] & m) if feas else 0
        if first:
            r = _ac('xor', w, [lut([(v ^ first) & m for v in tbl], base, w), first])
            return _tighten(r, max(v & m for v in feas))     # the numeric bound of the table survives the pull-out
    if RAW or allfeas:
        tbl = _intern_table([v & m for v in tbl])
        sel = tbl
    else:
        # entries the base can never select (by its known bits) are canonicalised to 0
        tbl = _intern_table([(v & m) if _feasible(base, i) else 0 for i, v in enumerate(tbl)])
        sel = [v for i, v in enumerate(tbl) if _feasible(base, i)]
    k1 = m
    k0 = m
    for v in sel:
        k1 &= v
        k0 &= ~v
        if not (k1 | k0):
            break
    return _tighten(_fin('lut', w, (base,), tbl, k0, k1), max(sel) if sel else 0)


def _atom(x):
    """x (or x under a zext) is a non-constant, non-lut term of <= 8 bits: usable as a lut base"""
    if isinstance(x, Term):
        if x.op == 'zext':
            x = x.args[0]
        if x.w <= 8 and x.op not in ('const', 'lut') and _lutc(x) is None:
            return x
    return None


def _fold2(fn, w_out, a, wa, b, wb):
    """Try to express fn(a, b) as a lut over a common <=8-bit base."""
    if RAW or NOLUT:
        return None
    base = _lut_base(a)
    if base is None:
        base = _lut_base(b)
    if base is None:
        # a unary function of one small term (operation with a constant): promote to a lut
        if not isinstance(b, Term):
            base = _atom(a)
        elif not isinstance(a, Term):
            base = _atom(b)
    if base is None:
        return None
    ta = _as_fn_of_z(a, wa, base)
    if ta is None:
        return None
    tb = _as_fn_of_z(b, wb, base)
    if tb is None:
        return None
    return lut([fn(x, y) for x, y in zip(ta, tb)], base, w_out)


def _as_fn_of_z(x, w, base):
    """_as_fn_of that also looks through zext(lut)."""
    if isinstance(x, Term) and x.op == 'zext':
        lc = _lutc(x.args[0])
        if lc is not None and lc[0].args[0] is base:
            return [v ^ lc[1] for v in lc[0].val]
    return _as_fn_of(x, w, base)


def _fold1(fn, w_out, a, wa):
    if RAW or NOLUT:
        return None
    if isinstance(a, Term):
        lc = _lutc(a)
        if lc is not None:
            k = lc[1]
            return lut([fn(v ^ k) for v in lc[0].val], lc[0].args[0], w_out)
        at = _atom(a)
        if at is not None and a is at:
            return lut([fn(v) for v in range(1 << at.w)], at, w_out)
    return None


# ---------------------------------------------------------------- AC ops

def _ac(op, w, xs):
    """xor / and / or over a list of operands."""
    m = _mask(w)
    if op == 'xor':
        acc = 0
    elif op == 'and':
        acc = m
    else:
        acc = 0
    terms = []
    stack = list(xs)
    while stack:
        x = stack.pop()
        if isinstance(x, Term):
            if x.op == op and not RAW:
                stack.extend(x.args)
            elif x.op == 'const':
                stack.append(x.val)
            else:
                terms.append(x)
        else:
            x &= m
            if op == 'xor':
                acc ^= x
            elif op == 'and':
                acc &= x
            else:
                acc |= x
    if RAW:
        if not terms:
            return acc
        args = terms[::-1]
        ident = 0 if op in ('xor', 'or') else m
        if acc != ident or len(args) == 1:
            args = args + [const_term(w, acc)]
        r = args[0]
        for a in args[1:]:
            r = _mk(op, w, (r, a))
        return r
    if op == 'and' and acc == 0:
        return 0
    if op == 'or' and acc == m:
        return m
    if op == 'xor' and w == 1 and acc == 1 and terms:
        return bnot(1, _ac('xor', 1, terms))
    if op == 'xor' and w == 1:
        # not(x) operands: pull the negations out
        flips = 0
        nt = []
        for t in terms:
            if t.op == 'not':
                flips ^= 1
                nt.append(t.args[0])
            else:
                nt.append(t)
        if flips:
            return bnot(1, _ac('xor', 1, nt))
    terms.sort(key=lambda t: t.id)
    out = []
    if op == 'xor':
        i = 0
        while i < len(terms):
            if i + 1 < len(terms) and terms[i] is terms[i + 1]:
                i += 2
            else:
                out.append(terms[i])
                i += 1
        # combine luts over the same base
        bybase = {}
        rest = []
        for t in out:
            if t.op == 'lut' and not NOLUT:
                bybase.setdefault(t.args[0].id, []).append(t)
            else:
                rest.append(t)
        merged = False
        for ts in bybase.values():
            if len(ts) > 1:
                tbl = list(ts[0].val)
                for t in ts[1:]:
                    tbl = [x ^ y for x, y in zip(tbl, t.val)]
                r = lut(tbl, ts[0].args[0], w)
                merged = True
                if isinstance(r, Term):
                    rest.append(r)
                else:
                    acc ^= r
            else:
                rest.append(ts[0])
        if merged:
            return _ac('xor', w, rest + [acc])
        out = rest
        out.sort(key=lambda t: t.id)
    else:
        prev = None
        ids = set(t.id for t in terms)
        for t in terms:
            if t is not prev:
                out.append(t)
                if w == 1 and t.op == 'not' and t.args[0].id in ids:
                    return 0 if op == 'and' else 1        # x & !x, x | !x
            prev = t
    # known bits
    if not out:
        return acc
    if op == 'xor':
        k0, k1 = m & ~acc, acc
        for t in out:
            known = (k0 | k1) & (t.k0 | t.k1)
            v = (k1 ^ t.k1) & known
            k1 = v
            k0 = known & ~v
    elif op == 'and':
        k0, k1 = m & ~acc, acc
        for t in out:
            k0 |= t.k0
            k1 &= t.k1
    else:
        k0, k1 = m & ~acc, acc
        for t in out:
            k1 |= t.k1
            k0 &= t.k0
    ident = 0 if op in ('xor', 'or') else m
    args = list(out)
    if acc != ident:
        args.append(const_term(w, acc))
    if len(args) == 1:
        return args[0]
    r = _fin(op, w, args, None, k0, k1)
    if op == 'xor' and len(args) == 2 and args[0].op == 'lut' and args[1].op == 'const' and isinstance(r, Term):
        # canonical `table ^ constant`: keep the numeric bound of the table it stands for
        b_, kk = args[0].args[0], args[1].val
        _tighten(r, max((v ^ kk) for i, v in enumerate(args[0].val) if _feasible(b_, i)))
    return r


def bxor(w, a, b):
    return _ac('xor', w, [a, b])


def band(w, a, b):
    if not RAW:
        r = _fold2(lambda x, y: x & y, w, a, w, b, w)
        if r is not None:
            return r
        if not NOLUT:
            hi = min(umax(a, w), umax(b, w)).bit_length()
            if hi + 8 <= w and hi > 0 and (isinstance(a, Term) or isinstance(b, Term)):
                return zext(hi, w, band(hi, trunc(w, hi, a), trunc(w, hi, b)))
            # x & (2^k - 1) on a zero-extended narrower value is the value itself
            for x, y in ((a, b), (b, a)):
                if not isinstance(y, Term) and isinstance(x, Term) and (umax(x, w) & ~y) == 0:
                    return x
    return _ac('and', w, [a, b])


def bor(w, a, b):
    if not RAW:
        r = _fold2(lambda x, y: x | y, w, a, w, b, w)
        if r is not None:
            return r
    return _ac('or', w, [a, b])


def xor_many(w, xs):
    return _ac('xor', w, list(xs))


def bnot(w, a):
    m = _mask(w)
    if not isinstance(a, Term):
        return m & ~a
    if not RAW:
        if a.op == 'not':
            return a.args[0]
        if w > 1:
            r = _fold1(lambda v: m & ~v, w, a, w)
            if r is not None:
                return r
    return _fin('not', w, (a,), None, a.k1, a.k0)


# ---------------------------------------------------------------- arithmetic

def _arith(op, w, a, b, pyfn):
    m = _mask(w)
    if not isinstance(a, Term) and not isinstance(b, Term):
        return pyfn(a & m, b & m) & m
    if not RAW:
        r = _fold2(lambda x, y: pyfn(x, y) & m, w, a, w, b, w)
        if r is not None:
            return r
    return None


def add(w, a, b):
    r = _arith('add', w, a, b, lambda x, y: x + y)
    if r is not None:
        return r
    m = _mask(w)
    if not RAW:
        if not isinstance(a, Term) and a & m == 0:
            return b
        if not isinstance(b, Term) and b & m == 0:
            return a
        # disjoint known-zero bits: a + b == a | b (keeps module bytes / shifts simple)
        a0 = kb(a, w)[0]
        b0 = kb(b, w)[0]
        if (a0 | b0) == m:
            return bor(w, a, b)
        if isinstance(a, Term) and not isinstance(b, Term):
            a, b = b, a
        # (c1 + (c2 + x)) -> (c1+c2) + x
        if not isinstance(a, Term) and isinstance(b, Term) and b.op == 'add' and b.args[0].op == 'const':
            return add(w, (a + b.args[0].val) & m, b.args[1])
        if isinstance(a, Term) and isinstance(b, Term) and a.id > b.id:
            a, b = b, a
        # upper known-zero bits: if both fit in k bits the sum fits in k+1
        ha = umax(a, w).bit_length()
        hb = umax(b, w).bit_length()
        hi = (umax(a, w) + umax(b, w)).bit_length()
        if hi + 8 <= w and w >= 64:
            # usize arithmetic on small values: compute at the narrow width and extend (keeps the solver's adders small);
            # 32-bit accumulators (scores) keep their shape so that accumulation chains stay recognisable
            return zext(hi, w, add(hi, trunc(w, hi, a), trunc(w, hi, b)))
        k0 = m & ~_mask(hi) if hi < w else 0
        r = _fin('add', w, (_c(a, w), _c(b, w)), None, k0, 0)
        sb = umax(a, w) + umax(b, w)
        if sb <= m:
            _tighten(r, sb)
        return r
    return _fin('add', w, (_c(a, w), _c(b, w)))


def sub(w, a, b):
    r = _arith('sub', w, a, b, lambda x, y: x - y)
    if r is not None:
        return r
    if not RAW:
        if not isinstance(b, Term) and b & _mask(w) == 0:
            return a
        if a is b:
            return 0
    return _fin('sub', w, (_c(a, w), _c(b, w)))


def mul(w, a, b):
    r = _arith('mul', w, a, b, lambda x, y: x * y)
    if r is not None:
        return r
    m = _mask(w)
    if not RAW:
        for x, y in ((a, b), (b, a)):
            if not isinstance(x, Term):
                x &= m
                if x == 0:
                    return 0
                if x == 1:
                    return y
        if isinstance(a, Term) and not isinstance(b, Term):
            a, b = b, a
        if isinstance(a, Term) and isinstance(b, Term) and a.id > b.id:
            a, b = b, a
        hi = (umax(a, w) * umax(b, w)).bit_length()
        if hi + 8 <= w and hi > 0 and w >= 64:
            return zext(hi, w, mul(hi, trunc(w, hi, a), trunc(w, hi, b)))
        k0 = m & ~_mask(hi) if hi < w else 0
        r = _fin('mul', w, (_c(a, w), _c(b, w)), None, k0, 0)
        pb = umax(a, w) * umax(b, w)
        if pb <= m:
            _tighten(r, pb)
        return r
    return _fin('mul', w, (_c(a, w), _c(b, w)))


def udiv(w, a, b):
    # caller guarantees b != 0 through an explicit assert in the MIR
    r = _arith('udiv', w, a, b, lambda x, y: (x // y) if y else _mask(w))
    if r is not None:
        return r
    m = _mask(w)
    k0 = 0
    if not RAW:
        if not isinstance(b, Term) and (b & m) == 1:
            return a
        if not isinstance(b, Term) and b:
            ka = max(umax(a, w).bit_length(), (b & m).bit_length())
            if ka + 8 <= w and isinstance(a, Term):
                return zext(ka, w, udiv(ka, trunc(w, ka, a), b & m))
            hi = (umax(a, w) // b).bit_length()
            k0 = m & ~_mask(hi)
            return _tighten(_fin('udiv', w, (_c(a, w), _c(b, w)), None, k0, 0), umax(a, w) // (b & m))
        else:
            hi = umax(a, w).bit_length()
            k0 = m & ~_mask(hi)
    return _tighten(_fin('udiv', w, (_c(a, w), _c(b, w)), None, k0, 0), umax(a, w))


def urem(w, a, b):
    r = _arith('urem', w, a, b, lambda x, y: (x % y) if y else x)
    if r is not None:
        return r
    m = _mask(w)
    k0 = 0
    if not RAW:
        if not isinstance(b, Term) and b:
            b &= m
            if b & (b - 1) == 0:
                return band(w, a, b - 1)
            if umax(a, w) < b:
                return a
            ka = max(umax(a, w).bit_length(), b.bit_length())
            if ka + 8 <= w and isinstance(a, Term):
                # both operands fit in ka bits: compute narrow, extend (keeps bit-blasted dividers small)
                return zext(ka, w, urem(ka, trunc(w, ka, a), b))
            hi = (b - 1).bit_length()
            k0 = m & ~_mask(hi)
            return _tighten(_fin('urem', w, (_c(a, w), _c(b, w)), None, k0, 0), min(umax(a, w), b - 1))
        else:
            hi = umax(a, w).bit_length()
            k0 = m & ~_mask(hi)
    return _tighten(_fin('urem', w, (_c(a, w), _c(b, w)), None, k0, 0), umax(a, w))


def _to_signed(v, w):
    return v - (1 << w) if v >> (w - 1) else v


def sdiv(w, a, b):
    def f(x, y):
        x, y = _to_signed(x, w), _to_signed(y, w)
        if y == 0:
            return -1
        q = abs(x) // abs(y)
        return q if (x < 0) == (y < 0) else -q
    if not isinstance(a, Term) and not isinstance(b, Term):
        return f(a, b) & _mask(w)
    return _fin('sdiv', w, (_c(a, w), _c(b, w)))


def srem(w, a, b):
    def f(x, y):
        x, y = _to_signed(x, w), _to_signed(y, w)
        if y == 0:
            return x
        r = abs(x) % abs(y)
        return r if x >= 0 else -r
    if not isinstance(a, Term) and not isinstance(b, Term):
        return f(a, b) & _mask(w)
    return _fin('srem', w, (_c(a, w), _c(b, w)))


def neg(w, a):
    return sub(w, 0, a)


def shl(w, a, s):
    """s is an int or Term of width w (callers zero-extend/truncate the amount)."""
    m = _mask(w)
    if not isinstance(s, Term):
        if s >= w:
            return 0
        if not isinstance(a, Term):
            return (a << s) & m
        if s == 0:
            return a
        if not RAW:
            r = _fold1(lambda v: (v << s) & m, w, a, w)
            if r is not None:
                return r
            if a.op == 'xor' and not NOLUT and any(x.op == 'lut' for x in a.args):
                return _ac('xor', w, [shl(w, _u(x), s) for x in a.args])
        k0 = ((a.k0 << s) | _mask(s)) & m
        k1 = (a.k1 << s) & m
        return _fin('shl', w, (a, const_term(w, s)), None, k0, k1)
    if not RAW:
        r = _fold2(lambda x, y: (x << y) & m if y < w else 0, w, a, w, s, w)
        if r is not None:
            return r
        # 1 << s style: shifted constant by a small symbolic amount
        if not isinstance(a, Term) and s.op == 'zext' and s.args[0].w <= 8:
            b = s.args[0]
            return lut_wide([((a << i) & m) if i < w else 0 for i in range(1 << b.w)], b, w)
    return _fin('shl', w, (_c(a, w), s))


def lshr(w, a, s):
    m = _mask(w)
    if not isinstance(s, Term):
        if s >= w:
            return 0
        if not isinstance(a, Term):
            return (a & m) >> s
        if s == 0:
            return a
        if not RAW:
            r = _fold1(lambda v: v >> s, w, a, w)
            if r is not None:
                return r
            if a.op == 'zext' and not NOLUT:
                inner = a.args[0]
                if s >= inner.w:
                    return 0
                return zext(inner.w, w, lshr(inner.w, inner, s))
            if a.op == 'xor' and not NOLUT and any(x.op == 'lut' for x in a.args):
                return _ac('xor', w, [lshr(w, _u(x), s) for x in a.args])
        k0 = ((a.k0 >> s) | (m & ~(m >> s))) & m
        k1 = a.k1 >> s
        return _tighten(_fin('lshr', w, (a, const_term(w, s)), None, k0, k1), a.ub >> s)
    if not RAW:
        r = _fold2(lambda x, y: (x >> y) if y < w else 0, w, a, w, s, w)
        if r is not None:
            return r
    return _fin('lshr', w, (_c(a, w), s))


def ashr(w, a, s):
    if not isinstance(a, Term) and not isinstance(s, Term):
        return (_to_signed(a & _mask(w), w) >> min(s, w - 1)) & _mask(w)
    return _fin('ashr', w, (_c(a, w), _c(s, w)))


def lut_wide(tbl, base, w):
    """lut whose table has 2**base.w entries of width w (alias of lut, kept for clarity)."""
    return lut(tbl, base, w)


# ---------------------------------------------------------------- width changes

def zext(w_from, w_to, a):
    if w_to == w_from:
        return a
    assert w_to > w_from
    if not isinstance(a, Term):
        return a & _mask(w_from)
    if not RAW:
        if a.op == 'zext':
            return zext(a.args[0].w, w_to, a.args[0])
        if a.op == 'lut' and not NOLUT:
            return lut(list(a.val), a.args[0], w_to)
        if a.op == 'xor' and not NOLUT and any(x.op == 'lut' for x in a.args):
            return _ac('xor', w_to, [zext(w_from, w_to, _u(x)) for x in a.args])
    hi = _mask(w_to) & ~_mask(w_from)
    return _tighten(_fin('zext', w_to, (a,), None, a.k0 | hi, a.k1), a.ub)


def sext(w_from, w_to, a):
    if w_to == w_from:
        return a
    if not isinstance(a, Term):
        return _to_signed(a & _mask(w_from), w_from) & _mask(w_to)
    if not RAW and (a.k0 >> (w_from - 1)) & 1:
        return zext(w_from, w_to, a)
    return _fin('sext', w_to, (a,))


def trunc(w_from, w_to, a):
    if w_to == w_from:
        return a
    assert w_to < w_from
    m = _mask(w_to)
    if not isinstance(a, Term):
        return a & m
    if not RAW:
        if a.op in ('zext', 'sext'):
            inner = a.args[0]
            if inner.w == w_to:
                return inner
            if inner.w > w_to:
                return trunc(inner.w, w_to, inner)
            if a.op == 'zext':
                return zext(inner.w, w_to, inner)
        if a.op == 'lut' and not NOLUT:
            return lut([v & m for v in a.val], a.args[0], w_to)
        if a.op in ('xor', 'and', 'or'):
            return _ac(a.op, w_to, [trunc(w_from, w_to, x) for x in a.args])
        if a.op == 'shl' and a.args[1].op == 'const':
            return shl(w_to, trunc(w_from, w_to, a.args[0]), a.args[1].val)
        if a.op in ('add', 'sub', 'mul'):
            f = {'add': add, 'sub': sub, 'mul': mul}[a.op]
            return f(w_to, trunc(w_from, w_to, _u(a.args[0])), trunc(w_from, w_to, _u(a.args[1])))
        if a.op == 'lshr' and a.args[1].op == 'const' and a.args[0].op == 'zext' \
                and a.args[0].args[0].w <= w_to:
            inner = a.args[0].args[0]
            return zext(inner.w, w_to, lshr(inner.w, inner, a.args[1].val)) if inner.w < w_to else lshr(w_to, inner, a.args[1].val)
        if a.op == 'ite':
            return ite(w_to, a.args[0], trunc(w_from, w_to, _u(a.args[1])), trunc(w_from, w_to, _u(a.args[2])))
    r = _fin('trunc', w_to, (a,), None, a.k0 & m, a.k1 & m)
    if a.ub <= m:
        _tighten(r, a.ub)
    return r


def _u(t):
    """Term -> int if it is a const node"""
    if isinstance(t, Term) and t.op == 'const':
        return t.val
    return t


def extract_bit(w, a, i):
    """bit i of a as a width-1 value"""
    if not isinstance(a, Term):
        return (a >> i) & 1
    if w <= 8 and not RAW and not NOLUT:
        return lut([(v >> i) & 1 for v in range(1 << w)], a, 1)
    return trunc(w, 1, lshr(w, a, i)) if i else trunc(w, 1, a)


def cast_int(w_from, signed_from, w_to, a):
    if w_to < w_from:
        return trunc(w_from, w_to, a)
    if w_to == w_from:
        return a
    return sext(w_from, w_to, a) if signed_from else zext(w_from, w_to, a)


# ---------------------------------------------------------------- comparisons

def eq(w, a, b):
    if not isinstance(a, Term) and not isinstance(b, Term):
        return 1 if (a ^ b) & _mask(w) == 0 else 0
    if a is b:
        return 1
    if not RAW:
        a0, a1 = kb(a, w)
        b0, b1 = kb(b, w)
        if (a0 & b1) or (a1 & b0):
            return 0
        r = _fold2(lambda x, y: 1 if x == y else 0, 1, a, w, b, w)
        if r is not None:
            return r
        if isinstance(a, Term) and not isinstance(b, Term):
            a, b = b, a
        if not isinstance(a, Term):
            # const == term
            if w == 1:
                return b if a & 1 else bnot(1, b)
            if b.op == 'zext':
                inner = b.args[0]
                if a >> inner.w:
                    return 0
                return eq(inner.w, a, inner)
            if b.op == 'ite':
                # push constant comparison into an ite with constant arms
                c, x, y = b.args
                if x.op == 'const' or y.op == 'const':
                    return ite(1, c, eq(w, a, _u(x)), eq(w, a, _u(y)))
            if b.op == 'xor' and b.args[-1].op == 'const':
                return eq(w, a ^ b.args[-1].val, _ac('xor', w, list(b.args[:-1])))
        if isinstance(a, Term) and isinstance(b, Term) and a.id > b.id:
            a, b = b, a
    return _fin('eq', 1, (_c(a, w), _c(b, w)))


def ne(w, a, b):
    return bnot(1, eq(w, a, b))


def ult(w, a, b):
    if not isinstance(a, Term) and not isinstance(b, Term):
        return 1 if (a & _mask(w)) < (b & _mask(w)) else 0
    if a is b:
        return 0
    if not RAW:
        if umax(a, w) < umin(b, w):
            return 1
        if umin(a, w) >= umax(b, w):
            return 0
        r = _fold2(lambda x, y: 1 if x < y else 0, 1, a, w, b, w)
        if r is not None:
            return r
        if isinstance(a, Term) and a.op == 'zext' and not isinstance(b, Term):
            inner = a.args[0]
            if b >> inner.w:
                return 1
            return ult(inner.w, inner, b)
        if isinstance(b, Term) and b.op == 'zext' and not isinstance(a, Term):
            inner = b.args[0]
            if a >> inner.w:
                return 0
            return ult(inner.w, a, inner)
        if isinstance(a, Term) and isinstance(b, Term) and a.op == 'zext' and b.op == 'zext' \
                and a.args[0].w == b.args[0].w:
            return ult(a.args[0].w, a.args[0], b.args[0])
    return _fin('ult', 1, (_c(a, w), _c(b, w)))


def ule(w, a, b):
    return bnot(1, ult(w, b, a))


def slt(w, a, b):
    if not isinstance(a, Term) and not isinstance(b, Term):
        return 1 if _to_signed(a & _mask(w), w) < _to_signed(b & _mask(w), w) else 0
    if not RAW:
        sb = 1 << (w - 1)
        if (kb(a, w)[0] & sb) and (kb(b, w)[0] & sb):
            return ult(w, a, b)
    return _fin('slt', 1, (_c(a, w), _c(b, w)))


def sle(w, a, b):
    return bnot(1, slt(w, b, a))


# ---------------------------------------------------------------- boolean helpers (w = 1)

def land(a, b):
    return band(1, a, b)


def lor(a, b):
    return bor(1, a, b)


def lnot(a):
    return bnot(1, a)


def implies(a, b):
    return bor(1, bnot(1, a), b)


def and_many(xs):
    return _ac('and', 1, list(xs)) if xs else 1


def or_many(xs):
    return _ac('or', 1, list(xs)) if xs else 0


# ---------------------------------------------------------------- ite

def ite(w, c, a, b):
    if not isinstance(c, Term):
        return a if c & 1 else b
    if a is b:
        return a
    if not isinstance(a, Term) and not isinstance(b, Term) and (a ^ b) & _mask(w) == 0:
        return a
    if RAW:
        return _fin('ite', w, (c, _c(a, w), _c(b, w)))
    if c.op == 'not':
        return ite(w, c.args[0], b, a)
    if w == 1 and not isinstance(a, Term) and not isinstance(b, Term):
        return c if a & 1 else bnot(1, c)
    if w == 1:
        if not isinstance(a, Term):
            return bor(1, c, b) if a & 1 else band(1, bnot(1, c), b)
        if not isinstance(b, Term):
            return bor(1, bnot(1, c), a) if b & 1 else band(1, c, a)
    # lut folding
    base = None
    if not NOLUT:
        base = _lut_base(a)
        if base is None:
            base = _lut_base(b)
        if base is None:
            base = _lut_base(c)
    if base is None and c.op == 'eq' and not NOLUT and not isinstance(a, Term) and not isinstance(b, Term):
        for x in c.args:
            if x.op != 'const' and x.w <= 8:
                base = x
    if base is None and c.op == 'eq' and not NOLUT:
        for x in c.args:
            if x.op != 'const' and x.w <= 8 and (_lut_base(a) is x or _lut_base(b) is x):
                base = x
    if base is not None:
        tc = _as_fn_of(c, 1, base)
        if tc is not None:
            ta = _as_fn_of_z(a, w, base)
            tb = _as_fn_of_z(b, w, base) if ta is not None else None
            if ta is not None and tb is not None:
                return lut([x if g else y for g, x, y in zip(tc, ta, tb)], base, w)
    # two luts over the same base under a guard that is not a function of it: factor the common part
    if not NOLUT and isinstance(a, Term) and isinstance(b, Term) and a.op == 'lut' and b.op == 'lut' \
            and a.args[0] is b.args[0]:
        diff = lut([x ^ y for x, y in zip(a.val, b.val)], a.args[0], w)
        return bxor(w, b, ite(w, c, diff, 0))
    # ite(c, x, x ^ y) -> x ^ ite(c, 0, y)
    ax = _xor_parts(a, w)
    bx = _xor_parts(b, w)
    if ax is not None and bx is not None:
        common = [t for t in ax[0] if t in bx[0]]
        if common and (len(common) == len(ax[0]) or len(common) == len(bx[0])):
            ra = [t for t in ax[0] if t not in common]
            rb = [t for t in bx[0] if t not in common]
            ya = _ac('xor', w, ra + [ax[1]])
            yb = _ac('xor', w, rb + [bx[1]])
            return _ac('xor', w, common + [ite(w, c, ya, yb)])
    # nested ite with same guard
    if isinstance(a, Term) and a.op == 'ite' and a.args[0] is c:
        return ite(w, c, _u(a.args[1]), b)
    if isinstance(b, Term) and b.op == 'ite' and b.args[0] is c:
        return ite(w, c, a, _u(b.args[2]))
    a0, a1 = kb(a, w)
    b0, b1 = kb(b, w)
    return _tighten(_fin('ite', w, (c, _c(a, w), _c(b, w)), None, a0 & b0, a1 & b1), max(umax(a, w), umax(b, w)))


def _xor_parts(x, w):
    """x as (list of xor operands, constant) if it is a Term"""
    if not isinstance(x, Term):
        return None
    if x.op == 'xor':
        ts = list(x.args)
        k = 0
        if ts[-1].op == 'const':
            k = ts[-1].val
            ts = ts[:-1]
        return ts, k
    return [x], 0


# ---------------------------------------------------------------- tables with symbolic index

def select_const(tbl, w_elem, idx, w_idx):
    """tbl[idx] for a constant table of ints and a (possibly symbolic) index.
    The caller has already emitted the bounds obligation."""
    n = len(tbl)
    if not isinstance(idx, Term):
        return tbl[idx] & _mask(w_elem)
    if not RAW:
        base = None
        if idx.op == 'lut':
            base = idx
        elif idx.op == 'zext' and idx.args[0].w <= 8:
            base = idx.args[0]
        elif idx.w <= 8:
            base = idx
        if base is None and umax(idx, w_idx) < 256:
            base = trunc(w_idx, 8, idx)
            if not isinstance(base, Term):
                return tbl[base] & _mask(w_elem)
        if base is not None:
            if base.op == 'lut' and not NOLUT:
                inner = base.val
                return lut([tbl[v] if v < n else 0 for v in inner], base.args[0], w_elem)
            size = 1 << base.w
            return lut([tbl[i] if i < n else 0 for i in range(size)], base, w_elem)
    tbl = _intern_table([v & _mask(w_elem) for v in tbl])
    m = _mask(w_elem)
    k0 = k1 = m
    for v in tbl:
        k1 &= v
        k0 &= ~v
    return _tighten(_fin('tblsel', w_elem, (idx,), tbl, k0, k1), max(tbl) if tbl else 0)


def select_terms(elems, w_elem, idx, w_idx):
    """elems[idx] for a list of ints/Terms and a symbolic index: ite chain."""
    if not isinstance(idx, Term):
        return elems[idx]
    if all(not isinstance(e, Term) for e in elems):
        return select_const(list(elems), w_elem, idx, w_idx)
    r = elems[-1]
    for i in range(len(elems) - 2, -1, -1):
        r = ite(w_elem, eq(w_idx, idx, i), elems[i], r)
    return r


# ---------------------------------------------------------------- evaluation

def evaluate(t, env, cache=None):
    """Concrete value of t under env: {var name: int}.  Iterative (deep DAGs)."""
    if not isinstance(t, Term):
        return t
    if cache is None:
        cache = {}
    stack = [t]
    while stack:
        x = stack[-1]
        if x.id in cache:
            stack.pop()
            continue
        if x.op.startswith('fp'):
            # floating-point sub-terms (engine.fpterms): evaluated there (comparisons give 0/1, values give floats)
            from . import fpterms
            stack.pop()
            cache[x.id] = fpterms.eval_bool(x, env) if x.op.startswith('fpcmp.') else fpterms.evaluate(x, env)
            continue
        pend = [a for a in x.args if isinstance(a, Term) and a.id not in cache]
        if pend:
            stack.extend(pend)
            continue
        stack.pop()
        cache[x.id] = _eval_node(x, [cache[a.id] if isinstance(a, Term) else a for a in x.args], env)
    return cache[t.id]


def _eval_node(x, av, env):
    op, w = x.op, x.w
    m = _mask(w)
    if op == 'const':
        return x.val
    if op == 'var':
        return env[x.val] & m
    if op == 'xor':
        r = 0
        for v in av:
            r ^= v
        return r & m
    if op == 'and':
        r = m
        for v in av:
            r &= v
        return r
    if op == 'or':
        r = 0
        for v in av:
            r |= v
        return r & m
    if op == 'not':
        return m & ~av[0]
    if op == 'add':
        return (av[0] + av[1]) & m
    if op == 'sub':
        return (av[0] - av[1]) & m
    if op == 'mul':
        return (av[0] * av[1]) & m
    if op == 'udiv':
        return (av[0] // av[1]) if av[1] else m
    if op == 'urem':
        return (av[0] % av[1]) if av[1] else av[0]
    if op == 'sdiv':
        return sdiv(w, av[0], av[1])
    if op == 'srem':
        return srem(w, av[0], av[1])
    if op == 'shl':
        return (av[0] << av[1]) & m if av[1] < w else 0
    if op == 'lshr':
        return av[0] >> av[1] if av[1] < w else 0
    if op == 'ashr':
        return ashr(w, av[0], av[1])
    if op == 'zext':
        return av[0]
    if op == 'sext':
        return sext(x.args[0].w, w, av[0])
    if op == 'trunc':
        return av[0] & m
    if op == 'eq':
        return 1 if av[0] == av[1] else 0
    if op == 'ult':
        return 1 if av[0] < av[1] else 0
    if op == 'slt':
        return slt(x.args[0].w, av[0], av[1])
    if op == 'ite':
        return av[1] if av[0] else av[2]
    if op == 'lut':
        return x.val[av[0]]
    if op == 'tblsel':
        return x.val[av[0]] if av[0] < len(x.val) else 0
    raise NotImplementedError(op)


def support(t, limit=None):
    """set of variable names t depends on"""
    out = set()
    if not isinstance(t, Term):
        return out
    seen = set()
    stack = [t]
    while stack:
        x = stack.pop()
        if x.id in seen:
            continue
        seen.add(x.id)
        if x.op == 'var':
            out.add(x.val)
        else:
            stack.extend(a for a in x.args if isinstance(a, Term))
    return out


def dag_size(ts):
    seen = set()
    stack = [t for t in ts if isinstance(t, Term)]
    while stack:
        x = stack.pop()
        if x.id in seen:
            continue
        seen.add(x.id)
        stack.extend(a for a in x.args if isinstance(a, Term))
    return len(seen)
