"""String / fmt models (registered into Library)."""


def register(lib):
    pass
