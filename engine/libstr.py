"""String / fmt models (registered into Library).

A String is L('String')[buf] where buf is L('StrBuf') of items:
  int            a concrete code point
  Term (w=32)    a symbolic code point
  Guarded        a run of items present iff a condition holds (result of merging two different-length strings)
  NumPiece       Display of a number whose value is a term (decimal text not modelled, value kept)
&str is SliceRef(buf, start, len, is_str=True)."""
import re
from . import terms as T
from .terms import Term
from .mirsym import (L, Ptr, SliceRef, FnRef, Guarded, NumPiece, Float, UNIT, DEAD, Unsupported, OpaqueSlice)

HEX = '0123456789abcdef'


def rust_f64_display(v, precision=None):
    """text of `format!("{}", v)` / `format!("{:.N}", v)` for a concrete f64"""
    if precision is not None:
        if v != v:
            return 'NaN'
        if v in (float('inf'), float('-inf')):
            return 'inf' if v > 0 else '-inf'
        return '%.*f' % (precision, v)
    if v != v:
        return 'NaN'
    if v == float('inf'):
        return 'inf'
    if v == float('-inf'):
        return '-inf'
    r = repr(float(v))
    if 'e' in r or 'E' in r:
        # expand the exponent form into plain decimal digits
        from decimal import Decimal
        d = Decimal(r)
        s = format(d, 'f')
        r = s
    if r.endswith('.0'):
        r = r[:-2]
    return r


# ---- UTF-8 well-formedness (Unicode 15 table 3-7, what core::str::from_utf8 accepts) as a DFA over bytes
#      states: 0 accept, 1 one continuation byte due, 2 two due, 3 after E0, 4 after ED, 5 after F1..F3, 6 after F0, 7 after F4, 8 reject
def _utf8_next(state, b):
    if state == 0:
        if b < 0x80:
            return 0
        if 0xC2 <= b <= 0xDF:
            return 1
        if b == 0xE0:
            return 3
        if 0xE1 <= b <= 0xEC or 0xEE <= b <= 0xEF:
            return 2
        if b == 0xED:
            return 4
        if b == 0xF0:
            return 6
        if 0xF1 <= b <= 0xF3:
            return 5
        if b == 0xF4:
            return 7
        return 8
    lo, hi, nxt = {1: (0x80, 0xBF, 0), 2: (0x80, 0xBF, 1), 3: (0xA0, 0xBF, 1), 4: (0x80, 0x9F, 1),
                   5: (0x80, 0xBF, 2), 6: (0x90, 0xBF, 2), 7: (0x80, 0x8F, 2), 8: (1, 0, 8)}[state]
    return nxt if lo <= b <= hi else 8


_UTF8_TABLES = [[_utf8_next(st, b) for b in range(256)] for st in range(9)]


def utf8_valid(items):
    """width-1 term: the byte sequence is well-formed UTF-8"""
    state = 0
    for it in items:
        b = it
        if type(b) is Term and b.w != 8:
            b = T.trunc(b.w, 8, b)
        if type(state) is int:
            state = _UTF8_TABLES[state][b] if type(b) is int else T.lut(_UTF8_TABLES[state], b, 4)
        else:
            nxt = 8
            for st in range(8, -1, -1):
                v = _UTF8_TABLES[st][b] if type(b) is int else T.lut(_UTF8_TABLES[st], b, 4)
                nxt = T.ite(4, T.eq(4, state, st), v, nxt)
            state = nxt
    return T.eq(4, state, 0)


def char_boundary(items, k):
    """width-1 term: byte offset k is a char boundary of the UTF-8 string `items` (str::is_char_boundary)"""
    if k == 0 or k == len(items):
        return 1
    if k > len(items):
        return 0
    b = items[k]
    if type(b) is int:
        return 0 if 0x80 <= b <= 0xBF else 1
    if b.w != 8:
        b = T.trunc(b.w, 8, b)
    return T.ne(8, T.band(8, b, 0xC0), 0x80)


def register(lib):
    I = lib.I
    reg = lib.reg

    def new_string(items=()):
        buf = I.mk(list(items), 'StrBuf')
        return I.mk([buf], 'String')

    lib.new_string = new_string

    def str_items(v):
        """&str / &String / String -> list of items"""
        if type(v) is SliceRef:
            return v.c[v.start:v.start + v.len]
        if type(v) is Ptr:
            return str_items(v.c[v.k])
        if type(v) is L and v.tag == 'String':
            return list(v[0])
        raise Unsupported('not a string: %r' % (v,))

    lib.str_items = str_items

    def string_of(ptr):
        s = lib.deref(ptr)
        if type(s) is not L or s.tag != 'String':
            raise Unsupported('expected &mut String, got %r' % (s,))
        return s

    def extend(s, items):
        buf = s[0]
        I.appending(buf)
        buf.extend(items)

    def S_flat(items):
        out = []
        for it in items:
            if type(it) is Guarded:
                out.extend(S_flat(it.items))
            else:
                out.append(it)
        return out

    def is_byte_item(it):
        """a symbolic item whose value is at most 255 is one byte of the UTF-8 encoding of the string (the checks build
        symbolic strings from bytes: 7-bit for ASCII text, 8-bit under the assumption utf8_valid(..) for arbitrary text)"""
        return type(it) is Term and T.umax(it, it.w) <= 0xFF

    def may_be_non_ascii(it):
        return (type(it) is int and it >= 0x80) or (type(it) is Term and T.umax(it, it.w) >= 0x80)

    def utf8_len(items):
        n = 0
        for it in items:
            if type(it) is int:
                n += 1 if it < 0x80 else (2 if it < 0x800 else (3 if it < 0x10000 else 4))
            elif is_byte_item(it):
                n += 1
            else:
                raise Unsupported('byte length of a string with symbolic pieces')
        return n

    lib.is_byte_item = is_byte_item
    lib.may_be_non_ascii = may_be_non_ascii
    lib.utf8_valid = utf8_valid
    lib.char_boundary = char_boundary

    # ---- String basics
    @reg(r'^String::new$', 'String::new')
    def _s_new(fr, name, args, ops):
        return new_string()

    @reg(r'^String::with_capacity$', 'String::with_capacity')
    def _s_wc(fr, name, args, ops):
        return new_string()

    @reg(r'^String::push$', 'String::push')
    def _s_push(fr, name, args, ops):
        extend(string_of(args[0]), [args[1]])
        return UNIT

    @reg(r'^String::push_str$', 'String::push_str')
    def _s_push_str(fr, name, args, ops):
        extend(string_of(args[0]), str_items(args[1]))
        return UNIT

    @reg(r'^<String as Deref>::deref$|^String::as_str$|^<String as AsRef<str>>::as_ref$', 'String::deref')
    def _s_deref(fr, name, args, ops):
        s = string_of(args[0])
        return SliceRef(s[0], 0, len(s[0]), True)

    @reg(r'^String::len$|^core::str::<impl str>::len$', 'str::len')
    def _s_len(fr, name, args, ops):
        if type(args[0]) is OpaqueSlice:
            return args[0].length
        items = str_items(args[0])
        try:
            return utf8_len(items)
        except Unsupported:
            # only used as a capacity hint in this crate; the value is otherwise unobservable
            I.lib_used['str::len (symbolic content: bounded havoc)'] = 1
            cnt = len(S_flat(items))
            return T.var('strlen_%d' % I.alloc, 64, below=4 * cnt + 1)

    @reg(r'^String::is_empty$|^core::str::<impl str>::is_empty$', 'str::is_empty')
    def _s_empty(fr, name, args, ops):
        if type(args[0]) is OpaqueSlice:
            return T.eq(64, args[0].length, 0)
        items = str_items(args[0])
        if any(type(it) is Guarded for it in items):
            raise Unsupported('is_empty of a string with guarded pieces')
        return 1 if len(items) == 0 else 0

    @reg(r'^<str as ToString>::to_string$|^<String as ToString>::to_string$|^<str as ToOwned>::to_owned$|^<String as From<&str>>::from$', 'str::to_string')
    def _to_string(fr, name, args, ops):
        return new_string(str_items(args[0]))

    @reg(r'^std::slice::<impl \[String\]>::join::<&str>$|^alloc::slice::<impl \[String\]>::join', 'Vec<String>::join')
    def _join(fr, name, args, ops):
        parts = lib.as_slice(args[0]).items()
        sep = str_items(args[1])
        out = []
        for i, p in enumerate(parts):
            if i and sep:
                out.extend(sep)
            out.extend(str_items(p))
        return new_string(out)

    @reg(r'^<str as PartialEq>::eq$|^<String as PartialEq<str>>::eq$|^<String as PartialEq>::eq$', 'str::eq')
    def _str_eq(fr, name, args, ops):
        a, b = str_items(args[0]), str_items(args[1])
        if all(type(x) is int for x in a + b):
            return 1 if a == b else 0
        raise Unsupported('comparison of symbolic strings')

    @reg(r'^std::str::<impl str>::replace::<&str>$|^alloc::str::<impl str>::replace', 'str::replace')
    def _replace(fr, name, args, ops):
        hay, pat, to = str_items(args[0]), str_items(args[1]), str_items(args[2])
        if not all(type(x) is int for x in pat) or not pat:
            raise Unsupported('replace with symbolic/empty pattern')
        if len(pat) == 1 and pat[0] < 0x80 and any(type(x) is not int for x in hay):
            return new_string(lib.replace_items(hay, pat[0], to))
        out = []
        i = 0
        n, m = len(hay), len(pat)
        while i < n:
            if i + m <= n and all(type(hay[i + j]) is int and hay[i + j] == pat[j] for j in range(m)):
                out.extend(to)
                i += m
            else:
                if type(hay[i]) is not int:
                    # a symbolic piece could complete a match of the pattern: only safe if the pattern cannot
                    # overlap it; the patterns in this crate are "{N}" on a literal format string
                    if type(hay[i]) is Term:
                        raise Unsupported('replace over symbolic characters')
                out.append(hay[i])
                i += 1
        return new_string(out)

    @reg(r'^String::as_bytes$|^core::str::<impl str>::as_bytes$', 'str::as_bytes')
    def _as_bytes(fr, name, args, ops):
        v = args[0]
        if type(v) is OpaqueSlice:
            return v
        sl = None
        if type(v) is Ptr:
            s_ = v.c[v.k]
            if type(s_) is L and s_.tag == 'String':
                sl = SliceRef(s_[0], 0, len(s_[0]), False)
        if type(v) is SliceRef:
            sl = SliceRef(v.c, v.start, v.len, False)
        if sl is None:
            raise Unsupported('as_bytes of %r' % (v,))
        items = sl.items()
        if all((type(x) is int and x < 0x80) or is_byte_item(x) for x in items):
            return sl                      # ASCII characters / symbolic bytes: the items are the bytes (same buffer)
        if all(type(x) is int for x in items):
            enc = ''.join(chr(x) for x in items).encode('utf-8')
            buf = I.mk(list(enc), 'bytes')
            return SliceRef(buf, 0, len(buf), False)
        raise Unsupported('as_bytes of a string with symbolic non-ASCII characters')

    @reg(r'^core::str::<impl str>::starts_with::<char>$', 'str::starts_with(char)')
    def _starts_with(fr, name, args, ops):
        items = str_items(args[0])
        if not items:
            return 0
        c0 = items[0]
        if type(c0) not in (int, Term):
            raise Unsupported('starts_with on a conditional piece')
        return T.eq(32, c0, args[1])

    def plain(items, what):
        if any(type(x) not in (int, Term) for x in items):
            raise Unsupported('%s on a string with conditional pieces' % what)
        return items

    def prefix_cond(items, pat):
        if len(pat) > len(items):
            return 0
        return T.and_many([T.eq(32, a, b) for a, b in zip(items, pat)])

    @reg(r'^core::str::<impl str>::starts_with::<&str>$|^core::str::<impl str>::starts_with::<&String>$', 'str::starts_with(&str)')
    def _starts_with_str(fr, name, args, ops):
        return prefix_cond(plain(str_items(args[0]), 'starts_with'), plain(str_items(args[1]), 'starts_with'))

    @reg(r'^core::str::<impl str>::ends_with::<&str>$', 'str::ends_with(&str)')
    def _ends_with_str(fr, name, args, ops):
        a, b = plain(str_items(args[0]), 'ends_with'), plain(str_items(args[1]), 'ends_with')
        return prefix_cond(a[::-1], b[::-1])

    @reg(r'^core::str::<impl str>::ends_with::<char>$', 'str::ends_with(char)')
    def _ends_with_ch(fr, name, args, ops):
        a = plain(str_items(args[0]), 'ends_with')
        return T.eq(32, a[-1], args[1]) if a else 0

    @reg(r'^core::str::<impl str>::strip_prefix::<(char|&str)>$', 'str::strip_prefix')
    def _strip_prefix(fr, name, args, ops):
        v = args[0]
        if type(v) is Ptr:
            v = v.c[v.k]
            if type(v) is L and v.tag == 'String':
                v = SliceRef(v[0], 0, len(v[0]), True)
        if type(v) is not SliceRef:
            raise Unsupported('strip_prefix of %r' % (v,))
        items = plain(v.items(), 'strip_prefix')
        pat = [args[1]] if name.endswith('<char>') else plain(str_items(args[1]), 'strip_prefix')
        c = prefix_cond(items, pat)
        rest = SliceRef(v.c, v.start + len(pat), max(0, v.len - len(pat)), True)
        if type(c) is int:
            return lib.some(rest) if c else lib.none()
        return I.mk([T.zext(1, 64, c), rest], 'enum')

    @reg(r'^core::str::<impl str>::contains::<char>$', 'str::contains(char)')
    def _contains_ch(fr, name, args, ops):
        return T.or_many([T.eq(32, x, args[1]) for x in plain(str_items(args[0]), 'contains')] or [0])

    def known_ascii_under_pc(item):
        """does the current path condition force this one-variable byte below 0x80?  (exhaustive over the 256 values)"""
        sup = T.support(item)
        if len(sup) != 1:
            return False
        nm = list(sup)[0]
        conds = [c for c in I.pc if isinstance(c, Term) and T.support(c) == sup]
        if not conds:
            return False
        for val in range(256):
            env = {nm: val}
            if all(T.evaluate(c, env) for c in conds) and T.evaluate(item, env) >= 0x80:
                return False
        return True

    @reg(r"^<(std::borrow::)?Cow<('_, )?str> as Deref>::deref$", 'Cow<str>::deref')
    def _cow_deref(fr, name, args, ops):
        v = lib.deref(args[0])
        if type(v[0]) is not int:
            raise Unsupported('deref of a Cow with a symbolic discriminant')
        p = v[1]
        if type(p) is L and p.tag == 'String':
            return SliceRef(p[0], 0, len(p[0]), True)
        return p

    @reg(r'^String::remove$', 'String::remove')
    def _remove(fr, name, args, ops):
        s_ = string_of(args[0])
        idx = args[1]
        buf = s_[0]
        if type(idx) is not int:
            raise Unsupported('String::remove at a symbolic index')
        if idx >= len(buf):
            return I.panic(fr, 'cannot remove a char from the end of a string')
        ch = buf[idx]
        if type(ch) is Term and T.umax(ch, ch.w) >= 0x80 and not known_ascii_under_pc(ch):
            raise Unsupported('String::remove of a character of unknown byte length')
        if any(may_be_non_ascii(x) for x in buf[:idx] if type(x) in (int, Term)):
            raise Unsupported('String::remove after non-ASCII content (char index vs byte index)')
        I.structural(buf)
        del buf[idx]
        return ch

    @reg(r'^from_utf8$|^std::str::from_utf8$|^core::str::from_utf8$|^core::str::converts::from_utf8$', 'str::from_utf8')
    def _from_utf8(fr, name, args, ops):
        sl = lib.as_slice(args[0])
        items = sl.items()
        if all((type(x) is int and x < 0x80) or (type(x) is Term and T.umax(x, x.w) < 0x80) for x in items):
            return lib.ok(SliceRef(sl.c, sl.start, sl.len, True))
        if all(type(x) is int for x in items):
            try:
                txt = bytes(items).decode('utf-8')
            except UnicodeDecodeError:
                return lib.err(I.mk(['Utf8Error'], 'opaque'))
            buf = I.mk([ord(c) for c in txt], 'StrBuf')
            return lib.ok(SliceRef(buf, 0, len(buf), True))
        if all((type(x) is int and x <= 0xFF) or is_byte_item(x) for x in items):
            valid = utf8_valid(items)
            view = SliceRef(sl.c, sl.start, sl.len, True)
            if type(valid) is int:
                return lib.ok(view) if valid else lib.err(I.mk(['Utf8Error'], 'opaque'))
            return I.mk([T.zext(1, 64, T.lnot(valid)), {0: I.mk([view]), 1: I.mk([I.mk(['Utf8Error'], 'opaque')])}], 'symenum')
        raise Unsupported('from_utf8 of items that are not bytes')

    @reg(r'^core::num::<impl u8>::from_str_radix$', 'u8::from_str_radix')
    def _from_str_radix(fr, name, args, ops):
        items = str_items(args[0])
        radix = args[1]
        if radix != 16:
            raise Unsupported('from_str_radix with radix %r' % (radix,))
        vals = [T.trunc(32, 8, x) if type(x) is Term and x.w == 32 else x for x in items]
        HEXV = [int(chr(i), 16) if chr(i) in '0123456789abcdefABCDEF' else 255 for i in range(256)]

        def digit(c):
            return T.select_const(HEXV, 8, T.zext(8, 64, c) if type(c) is Term else c, 64) if type(c) is Term else HEXV[c & 0xFF]
        n = len(vals)
        if n == 0:
            return lib.err(I.mk(['ParseIntError::Empty'], 'opaque'))
        if n > 3:
            raise Unsupported('from_str_radix on more than 3 characters')
        # documented semantics: optional leading '+', then one or more digits of the radix; overflow -> Err
        plus = T.eq(8, vals[0], ord('+'))
        ds = [digit(c) for c in vals]
        isd = [T.ne(8, d, 255) for d in ds]

        def value(dd):
            acc = 0
            for d in dd:
                acc = T.add(16, T.mul(16, acc, 16), T.zext(8, 16, d) if type(d) is Term else d)
            return acc
        all_d = T.and_many(isd)
        v_all = value(ds)
        ok_all = T.land(all_d, T.ult(16, v_all, 256))
        if n >= 2:
            rest_d = T.and_many(isd[1:])
            v_rest = value(ds[1:])
            ok_plus = T.land(T.land(plus, rest_d), T.ult(16, v_rest, 256))
        else:
            ok_plus, v_rest = 0, 0
        ok = T.lor(ok_all, ok_plus)
        val = T.ite(8, ok_all, T.trunc(16, 8, v_all), T.trunc(16, 8, v_rest))
        if type(ok) is int:
            return lib.ok(val) if ok else lib.err(I.mk(['ParseIntError'], 'opaque'))
        disc = T.zext(1, 64, T.lnot(ok))
        return I.mk([disc, val], 'enum')

    @reg(r'^core::str::<impl str>::chars$', 'str::chars')
    def _chars(fr, name, args, ops):
        items = str_items(args[0])
        if any(type(x) not in (int, Term) for x in items):
            raise Unsupported('chars() over a string with conditional pieces')
        if any(type(x) is Term and T.umax(x, x.w) >= 0x80 for x in items):
            raise Unsupported('chars() over symbolic bytes that may be non-ASCII (decoding not modelled)')
        return I.mk([I.mk(list(items)), 0], 'ArrIter')

    # ---- fmt
    @reg(r'^core::fmt::rt::Argument::<>::new_(display|lower_hex|debug|upper_hex)::<(.*)>$|^core::fmt::rt::Argument::new_(display|lower_hex|debug|upper_hex)::<(.*)>$', 'fmt::Argument::new_*')
    def _arg_new(fr, name, args, ops):
        m = re.search(r'new_(\w+)::<(.*)>$', name)
        return I.mk([m.group(1), m.group(2), args[0]], 'FmtArg')

    @reg(r'^Arguments::<>::new::<\d+, \d+>$|^Arguments::new::<\d+, \d+>$|^core::fmt::Arguments::<>::new::<', 'fmt::Arguments::new')
    def _args_new(fr, name, args, ops):
        tmpl = lib.as_slice(args[0]).items()
        av = lib.as_slice(args[1]).items()
        return I.mk([list(tmpl), list(av)], 'Arguments')

    @reg(r'^Arguments::<>::from_str(_nonconst)?$|^Arguments::from_str(_nonconst)?$', 'fmt::Arguments::from_str')
    def _args_from_str(fr, name, args, ops):
        return I.mk([None, list(str_items(args[0]))], 'Arguments')

    def render_value(kind, ty, ptr, prec=None, width=None, zero=False):
        v = lib.deref(ptr)
        while type(v) is Ptr:
            v = v.c[v.k]
        ty = ty.strip()
        if kind == 'lower_hex':
            if ty == 'u8' and width == 2 and zero:
                if type(v) is int:
                    return [ord(c) for c in '%02x' % v]
                hi = T.lut([ord(HEX[i >> 4]) for i in range(256)], v, 32)
                lo = T.lut([ord(HEX[i & 15]) for i in range(256)], v, 32)
                return [hi, lo]
            raise Unsupported('hex formatting of %s (width %s)' % (ty, width))
        if kind != 'display':
            raise Unsupported('fmt trait %s' % kind)
        if ty in ('usize', 'u8', 'u16', 'u32', 'u64'):
            if type(v) is int:
                return [ord(c) for c in str(v)]
            return [NumPiece('usize', v, v.w)]
        if ty == 'char':
            return [v]
        if type(v) is OpaqueSlice:
            return [ord(c) for c in '<%s>' % v.ident]          # text of unknown content: only ever handed to stubs
        if ty in ('&str', 'str', 'String', '&String', '&&str'):
            return list(str_items(v))
        if re.search(r'(Error|Err)$', ty) and type(v) is L:
            return [ord(c) for c in '<display of %s>' % ty.split('::')[-1]]
        if re.match(r"^&*(std::borrow::)?Cow<('_, )?str>$", ty):
            d = v[0]
            if type(d) is int:
                return list(str_items(v[1]))
            if v.tag != 'symenum':
                raise Unsupported('Display of a Cow with symbolic discriminant and shared payload')
            out = []
            for dv, f in sorted(v[1].items()):
                out.append(Guarded(T.eq(64, d, dv), list(str_items(f[0]))))
            return out
        if ty == 'f64':
            if type(v) is Float and isinstance(v.v, float):
                return [ord(c) for c in rust_f64_display(v.v, prec)]
            return [NumPiece('f64' if prec is None else 'f64.%d' % prec, v)]
        raise Unsupported('Display for %s' % ty)

    lib.render_value = render_value

    def render(a):
        """Arguments -> list of string items"""
        tmpl, av = a
        if tmpl is None:
            return list(av)
        out = []
        i = 0
        argi = 0
        n = len(tmpl)
        while True:
            b = tmpl[i]
            i += 1
            if b == 0:
                break
            if b < 0x80:
                out.extend(ord(c) for c in bytes(tmpl[i:i + b]).decode('utf-8'))
                i += b
            elif b == 0x80:
                ln = tmpl[i] | (tmpl[i + 1] << 8)
                i += 2
                out.extend(ord(c) for c in bytes(tmpl[i:i + ln]).decode('utf-8'))
                i += ln
            else:
                flags = None
                width = None
                prec = None
                if b & 1:
                    flags = tmpl[i] | (tmpl[i + 1] << 8) | (tmpl[i + 2] << 16) | (tmpl[i + 3] << 24)
                    i += 4
                if b & 2:
                    width = tmpl[i] | (tmpl[i + 1] << 8)
                    i += 2
                if b & 4:
                    prec = tmpl[i] | (tmpl[i + 1] << 8)
                    i += 2
                if b & 8:
                    argi = tmpl[i] | (tmpl[i + 1] << 8)
                    i += 2
                if b & 48:
                    raise Unsupported('dynamic width/precision')
                arg = av[argi]
                argi += 1
                zero = bool(flags is not None and (flags >> 24) & 1)
                out.extend(render_value(arg[0], arg[1], arg[2], prec, width, zero))
        return out

    lib.render = render

    @reg(r'^format$|^std::fmt::format$|^alloc::fmt::format$', 'fmt::format')
    def _format(fr, name, args, ops):
        return new_string(render(args[0]))

    @reg(r'^<f64 as ToString>::to_string$|^<usize as ToString>::to_string$', 'ToString (Display)')
    def _num_to_string(fr, name, args, ops):
        ty = re.match(r'^<(\w+) as', name).group(1)
        return new_string(render_value('display', ty, args[0]))

    def render_debug(a):
        try:
            items = render(a)
            return ''.join(chr(x) if type(x) is int else '?' for x in items)
        except Exception:
            return 'formatted panic message'

    lib.render_debug = render_debug
