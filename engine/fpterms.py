"""f64 values for the MIR executor: concrete Python floats, or FP terms (nodes of terms.Term with op 'fp.*', sort
Float64, width field 64).  Comparisons of FP terms are width-1 bit-vector terms with op 'fpcmp.*'."""
import math
import struct
from . import terms as T
from .terms import Term
from .mirsym import Float, Unsupported


DYADIC = False      # when set, int->float conversions of symbolic integers produce exact fixed-point values (class Dy)
SCALE = 8           # fractional bits of the fixed-point model
EXACT = []          # exactness side conditions of the fixed-point model (must be discharged by the caller)


def set_dyadic(v, clear=True):
    global DYADIC
    DYADIC = bool(v)
    if clear:
        del EXACT[:]


class Dy:
    """an f64 known to be the dyadic rational  t / 2^SCALE  (t: signed 64-bit term or int), |value| < 2^40.
    IEEE double arithmetic is exact on such values as long as every result is again such a value; each operation that
    could leave the set (division by a power of two) records its exactness condition in EXACT."""
    __slots__ = ('t',)

    def __init__(self, t):
        self.t = t

    def __repr__(self):
        return 'Dy(%r)' % (self.t,)


def _dy(x):
    """float / Dy -> scaled integer (int or term); None if not representable"""
    if isinstance(x, Dy):
        return x.t
    if isinstance(x, float) or isinstance(x, int):
        v = x * (1 << SCALE)
        if v != int(v) or abs(v) >= 1 << 60:
            return None
        return int(v) & ((1 << 64) - 1)
    return None


def is_sym(x):
    return isinstance(x, Term)


def is_integral(x):
    """width-1: the value is a whole number"""
    if isinstance(x, Dy):
        return T.eq(64, T.band(64, x.t, (1 << SCALE) - 1), 0)
    if not is_sym(x):
        return 1 if x == math.floor(x) else 0
    return cmp('eq', x, _node('fp.round', [x]))


def same(a, b):
    """width-1: the two values are the same f64 (structural equality, NaN == NaN)"""
    if isinstance(a, Dy) or isinstance(b, Dy):
        return cmp('eq', a, b)
    if a is b:
        return 1
    if not is_sym(a) and not is_sym(b):
        return 1 if (a == b or (a != a and b != b)) else 0
    if is_sym(a) and a.op == 'fp.ite':
        return T.ite(1, a.args[0], same(_unc(a.args[1]), b), same(_unc(a.args[2]), b))
    if is_sym(b) and b.op == 'fp.ite':
        return T.ite(1, b.args[0], same(a, _unc(b.args[1])), same(a, _unc(b.args[2])))
    return T._mk('fpcmp.same', 1, (_f(a), _f(b)))


def _unc(t):
    if is_sym(t) and t.op == 'fp.const':
        return struct.unpack('<d', struct.pack('<Q', t.val))[0]
    return t


def fvar(name):
    return T._mk('fp.var', 64, (), name)


def fconst(v):
    return T._mk('fp.const', 64, (), struct.unpack('<Q', struct.pack('<d', float(v)))[0])


def _f(x):
    return x if is_sym(x) else fconst(x)


def _node(op, args):
    return T._mk(op, 64, tuple(_f(a) for a in args))


def rust_round(v):
    if v != v or v in (float('inf'), float('-inf')):
        return v
    return math.copysign(math.floor(abs(v) + 0.5), v)


def fmod(a, b):
    if b == 0 or a != a or b != b or a in (float('inf'), float('-inf')):
        return float('nan')
    return math.fmod(a, b)


def binop(op, a, b):
    """MIR BinOp on Float values -> Float or width-1 bit-vector"""
    x = a.v if type(a) is Float else a
    y = b.v if type(b) is Float else b
    if isinstance(x, Dy) or isinstance(y, Dy):
        return _dy_binop(op, x, y)
    sym = is_sym(x) or is_sym(y)
    if op in ('Add', 'Sub', 'Mul', 'Div', 'Rem'):
        if not sym:
            try:
                if op == 'Add':
                    return Float(x + y)
                if op == 'Sub':
                    return Float(x - y)
                if op == 'Mul':
                    return Float(x * y)
                if op == 'Div':
                    if y == 0:
                        return Float(float('nan') if x == 0 or x != x else math.copysign(float('inf'), x) * math.copysign(1.0, y))
                    return Float(x / y)
                return Float(fmod(x, y))
            except OverflowError:
                return Float(float('inf'))
        name = {'Add': 'fp.add', 'Sub': 'fp.sub', 'Mul': 'fp.mul', 'Div': 'fp.div', 'Rem': 'fp.fmod'}[op]
        if op == 'Rem' and not is_sym(y) and y > 0 and math.frexp(y)[0] == 0.5:
            # x % 2^k = x - 2^k * trunc(x / 2^k), every step exact for finite x: avoids the solver's IEEE-remainder circuit
            q = _node('fp.trunc', [_node('fp.div', [x, y])])
            return Float(_node('fp.sub', [x, _node('fp.mul', [y, q])]))
        return Float(_node(name, [x, y]))
    if op in ('Eq', 'Ne', 'Lt', 'Le', 'Gt', 'Ge'):
        if not sym:
            r = {'Eq': x == y, 'Ne': x != y, 'Lt': x < y, 'Le': x <= y, 'Gt': x > y, 'Ge': x >= y}[op]
            return 1 if r else 0
        if op == 'Gt':
            return cmp('lt', y, x)
        if op == 'Ge':
            return cmp('le', y, x)
        if op == 'Ne':
            return T.lnot(cmp('eq', x, y))
        return cmp({'Eq': 'eq', 'Lt': 'lt', 'Le': 'le'}[op], x, y)
    raise Unsupported('float binop %s' % op)


def _dy_binop(op, x, y):
    if is_sym(x) or is_sym(y):
        raise Unsupported('mixing the fixed-point model with FP terms')
    a, b = _dy(x), _dy(y)
    if op in ('Add', 'Sub') and (a is None or b is None):
        raise Unsupported('value %r is outside the fixed-point model' % ((x, y),))
    if op == 'Add':
        return Float(Dy(T.add(64, a, b)))
    if op == 'Sub':
        return Float(Dy(T.sub(64, a, b)))
    if op == 'Div' and not isinstance(y, Dy) and y > 0 and math.frexp(y)[0] == 0.5 and y >= 1:
        k = int(math.log2(y))
        EXACT.append(T.eq(64, T.band(64, a, (1 << k) - 1), 0))      # result is again a multiple of 2^-SCALE
        return Float(Dy(T.ashr(64, a, k) if isinstance(a, Term) else ((T._to_signed(a, 64) >> k) & ((1 << 64) - 1))))
    if op == 'Rem' and not isinstance(y, Dy) and y > 0 and math.frexp(y)[0] == 0.5:
        k = int(math.log2(y)) + SCALE
        # value of the remainder keeps the sign of x; only its being zero is ever observed in this crate
        neg = T.slt(64, a, 0)
        mag = T.ite(64, neg, T.neg(64, a), a)
        r = T.band(64, mag, (1 << k) - 1)
        return Float(Dy(T.ite(64, neg, T.neg(64, r), r)))
    if op in ('Eq', 'Ne', 'Lt', 'Le', 'Gt', 'Ge') and (a is None or b is None):
        # comparison with a constant that is not a multiple of 2^-SCALE: compare against the neighbouring grid points
        from fractions import Fraction
        if a is None and b is not None and not isinstance(x, Dy):
            # c OP y  ==  y OP' c
            flip = {'Lt': 'Gt', 'Le': 'Ge', 'Gt': 'Lt', 'Ge': 'Le', 'Eq': 'Eq', 'Ne': 'Ne'}[op]
            return _dy_binop(flip, y, x)
        if b is None and a is not None and not isinstance(y, Dy):
            c = Fraction(y) * (1 << SCALE)
            lo = c.numerator // c.denominator          # floor (c is not an integer here)
            if op == 'Eq':
                return 0
            if op == 'Ne':
                return 1
            if op in ('Lt', 'Le'):
                return T.sle(64, a, lo & ((1 << 64) - 1))
            return T.slt(64, lo & ((1 << 64) - 1), a)
        raise Unsupported('fixed-point comparison')
    if a is None or b is None:
        raise Unsupported('value %r is outside the fixed-point model' % ((x, y),))
    if op in ('Eq', 'Ne', 'Lt', 'Le', 'Gt', 'Ge'):
        if op == 'Eq':
            return T.eq(64, a, b)
        if op == 'Ne':
            return T.ne(64, a, b)
        if op == 'Lt':
            return T.slt(64, a, b)
        if op == 'Le':
            return T.sle(64, a, b)
        if op == 'Gt':
            return T.slt(64, b, a)
        return T.sle(64, b, a)
    raise Unsupported('fixed-point model: operation %s' % op)


def cmp(kind, x, y):
    if isinstance(x, Dy) or isinstance(y, Dy):
        return _dy_binop({'eq': 'Eq', 'lt': 'Lt', 'le': 'Le'}[kind], x, y)
    if not is_sym(x) and not is_sym(y):
        return 1 if {'eq': x == y, 'lt': x < y, 'le': x <= y}[kind] else 0
    return T._mk('fpcmp.' + kind, 1, (_f(x), _f(y)))


def unop(op, a):
    x = a.v
    if isinstance(x, Dy):
        if op == 'Neg':
            return Float(Dy(T.neg(64, x.t)))
        raise Unsupported('fixed-point unop %s' % op)
    if op == 'Neg':
        return Float(-x) if not is_sym(x) else Float(_node('fp.neg', [x]))
    raise Unsupported('float unop %s' % op)


def round_(a):
    x = a.v
    if isinstance(x, Dy):
        raise Unsupported('round() in the fixed-point model')
    return Float(rust_round(x)) if not is_sym(x) else Float(_node('fp.round', [x]))


def from_int(v, w, signed):
    if not isinstance(v, Term):
        if signed and v >> (w - 1):
            v -= 1 << w
        return Float(float(v))
    if signed:
        raise Unsupported('signed int to float on a symbolic value')
    if DYADIC:
        if T.umax(v, w) >= 1 << 40:
            raise Unsupported('integer too large for the fixed-point model')
        return Float(Dy(T.shl(64, T.zext(w, 64, v) if w < 64 else v, SCALE)))
    k = max(8, T.umax(v, w).bit_length())
    if k < w:
        v = T.trunc(w, k, v)          # the value fits in k bits: a narrower (cheaper) conversion gives the same float
        if not isinstance(v, Term):
            return Float(float(v))
    return Float(T._mk('fp.from_ubv', 64, (v,)))


def to_int(a, bits, signed):
    x = a.v
    if is_sym(x):
        raise Unsupported('symbolic float to int')
    if x != x:
        return 0
    lo, hi = (-(1 << (bits - 1)), (1 << (bits - 1)) - 1) if signed else (0, (1 << bits) - 1)
    return max(lo, min(hi, int(x))) & ((1 << bits) - 1)


def ite(cond, x, y):
    if not isinstance(cond, Term):
        return x if cond & 1 else y
    if isinstance(x, Dy) or isinstance(y, Dy) or (DYADIC and not is_sym(x) and not is_sym(y)):
        a, b = _dy(x), _dy(y)
        if a is None or b is None:
            raise Unsupported('merge outside the fixed-point model')
        if not isinstance(a, Term) and not isinstance(b, Term) and a == b:
            return x
        return Dy(T.ite(64, cond, a, b))
    if not is_sym(x) and not is_sym(y) and (x == y or (x != x and y != y)):
        return x
    if x is y:
        return x
    return T._mk('fp.ite', 64, (cond, _f(x), _f(y)))


def is_finite(x):
    if not is_sym(x):
        return 1 if (x == x and x not in (float('inf'), float('-inf'))) else 0
    return T._mk('fpcmp.finite', 1, (x,))


def evaluate(x, env, cache=None):
    """concrete value of an FP term / float under env (FP variables by name -> float, BV variables -> int)"""
    if isinstance(x, Dy):
        v = T.evaluate(x.t, env) if isinstance(x.t, Term) else x.t
        return T._to_signed(v, 64) / float(1 << SCALE)
    if not is_sym(x):
        return x
    if cache is None:
        cache = {}
    if x.id in cache:
        return cache[x.id]
    op = x.op
    if op == 'fp.var':
        r = float(env[x.val])
    elif op == 'fp.const':
        r = struct.unpack('<d', struct.pack('<Q', x.val))[0]
    elif op == 'fp.from_ubv':
        r = float(T.evaluate(x.args[0], env))
    elif op == 'fp.ite':
        r = evaluate(x.args[1], env, cache) if eval_bool(x.args[0], env, cache) else evaluate(x.args[2], env, cache)
    else:
        a = [evaluate(y, env, cache) for y in x.args]
        if op == 'fp.add':
            r = a[0] + a[1]
        elif op == 'fp.sub':
            r = a[0] - a[1]
        elif op == 'fp.mul':
            r = a[0] * a[1]
        elif op == 'fp.div':
            r = a[0] / a[1] if a[1] != 0 else float('nan')
        elif op == 'fp.fmod':
            r = fmod(a[0], a[1])
        elif op == 'fp.neg':
            r = -a[0]
        elif op == 'fp.round':
            r = rust_round(a[0])
        elif op == 'fp.trunc':
            r = float(math.trunc(a[0])) if (a[0] == a[0] and abs(a[0]) != float('inf')) else a[0]
        else:
            raise Unsupported('fp evaluate %s' % op)
    cache[x.id] = r
    return r


def eval_bool(c, env, cache=None):
    """width-1 term that may contain fpcmp nodes"""
    if not isinstance(c, Term):
        return c & 1
    if c.op.startswith('fpcmp.'):
        a = [evaluate(y, env, cache) for y in c.args]
        k = c.op[6:]
        if k == 'finite':
            return 1 if (a[0] == a[0] and abs(a[0]) != float('inf')) else 0
        if k == 'same':
            return 1 if (a[0] == a[1] or (a[0] != a[0] and a[1] != a[1])) else 0
        return 1 if {'eq': a[0] == a[1], 'lt': a[0] < a[1], 'le': a[0] <= a[1]}[k] else 0
    if c.op == 'not':
        return 1 - eval_bool(c.args[0], env, cache)
    if c.op == 'and':
        return 1 if all(eval_bool(y, env, cache) for y in c.args) else 0
    if c.op == 'or':
        return 1 if any(eval_bool(y, env, cache) for y in c.args) else 0
    if c.op == 'const':
        return c.val & 1
    return T.evaluate(c, env) & 1
