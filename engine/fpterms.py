"""f64 values for the MIR executor: concrete Python floats, or FP terms (nodes of terms.Term with op 'fp.*', sort
Float64, width field 64).  Comparisons of FP terms are width-1 bit-vector terms with op 'fpcmp.*'."""
import math
import struct
from . import terms as T
from .terms import Term
from .mirsym import Float, Unsupported


def is_sym(x):
    return isinstance(x, Term)


def fvar(name):
    return T._mk('fp.var', 64, (), name)


def fconst(v):
    return T._mk('fp.const', 64, (), struct.unpack('<Q', struct.pack('<d', float(v)))[0])


def _f(x):
    return x if is_sym(x) else fconst(x)


def _node(op, args):
    return T._mk(op, 64, tuple(_f(a) for a in args))


def rust_round(v):
    if v != v or v in (float('inf'), float('-inf')):
        return v
    return math.copysign(math.floor(abs(v) + 0.5), v)


def fmod(a, b):
    if b == 0 or a != a or b != b or a in (float('inf'), float('-inf')):
        return float('nan')
    return math.fmod(a, b)


def binop(op, a, b):
    """MIR BinOp on Float values -> Float or width-1 bit-vector"""
    x = a.v if type(a) is Float else a
    y = b.v if type(b) is Float else b
    sym = is_sym(x) or is_sym(y)
    if op in ('Add', 'Sub', 'Mul', 'Div', 'Rem'):
        if not sym:
            try:
                if op == 'Add':
                    return Float(x + y)
                if op == 'Sub':
                    return Float(x - y)
                if op == 'Mul':
                    return Float(x * y)
                if op == 'Div':
                    if y == 0:
                        return Float(float('nan') if x == 0 or x != x else math.copysign(float('inf'), x) * math.copysign(1.0, y))
                    return Float(x / y)
                return Float(fmod(x, y))
            except OverflowError:
                return Float(float('inf'))
        name = {'Add': 'fp.add', 'Sub': 'fp.sub', 'Mul': 'fp.mul', 'Div': 'fp.div', 'Rem': 'fp.fmod'}[op]
        return Float(_node(name, [x, y]))
    if op in ('Eq', 'Ne', 'Lt', 'Le', 'Gt', 'Ge'):
        if not sym:
            r = {'Eq': x == y, 'Ne': x != y, 'Lt': x < y, 'Le': x <= y, 'Gt': x > y, 'Ge': x >= y}[op]
            return 1 if r else 0
        if op == 'Gt':
            return cmp('lt', y, x)
        if op == 'Ge':
            return cmp('le', y, x)
        if op == 'Ne':
            return T.lnot(cmp('eq', x, y))
        return cmp({'Eq': 'eq', 'Lt': 'lt', 'Le': 'le'}[op], x, y)
    raise Unsupported('float binop %s' % op)


def cmp(kind, x, y):
    if not is_sym(x) and not is_sym(y):
        return 1 if {'eq': x == y, 'lt': x < y, 'le': x <= y}[kind] else 0
    return T._mk('fpcmp.' + kind, 1, (_f(x), _f(y)))


def unop(op, a):
    x = a.v
    if op == 'Neg':
        return Float(-x) if not is_sym(x) else Float(_node('fp.neg', [x]))
    raise Unsupported('float unop %s' % op)


def round_(a):
    x = a.v
    return Float(rust_round(x)) if not is_sym(x) else Float(_node('fp.round', [x]))


def from_int(v, w, signed):
    if not isinstance(v, Term):
        if signed and v >> (w - 1):
            v -= 1 << w
        return Float(float(v))
    if signed:
        raise Unsupported('signed int to float on a symbolic value')
    return Float(T._mk('fp.from_ubv', 64, (v,)))


def to_int(a, bits, signed):
    x = a.v
    if is_sym(x):
        raise Unsupported('symbolic float to int')
    if x != x:
        return 0
    lo, hi = (-(1 << (bits - 1)), (1 << (bits - 1)) - 1) if signed else (0, (1 << bits) - 1)
    return max(lo, min(hi, int(x))) & ((1 << bits) - 1)


def ite(cond, x, y):
    if not isinstance(cond, Term):
        return x if cond & 1 else y
    if not is_sym(x) and not is_sym(y) and (x == y or (x != x and y != y)):
        return x
    if x is y:
        return x
    return T._mk('fp.ite', 64, (cond, _f(x), _f(y)))


def is_finite(x):
    if not is_sym(x):
        return 1 if (x == x and x not in (float('inf'), float('-inf'))) else 0
    return T._mk('fpcmp.finite', 1, (x,))


def evaluate(x, env, cache=None):
    """concrete value of an FP term / float under env (FP variables by name -> float, BV variables -> int)"""
    if not is_sym(x):
        return x
    if cache is None:
        cache = {}
    if x.id in cache:
        return cache[x.id]
    op = x.op
    if op == 'fp.var':
        r = float(env[x.val])
    elif op == 'fp.const':
        r = struct.unpack('<d', struct.pack('<Q', x.val))[0]
    elif op == 'fp.from_ubv':
        r = float(T.evaluate(x.args[0], env))
    elif op == 'fp.ite':
        r = evaluate(x.args[1], env, cache) if eval_bool(x.args[0], env, cache) else evaluate(x.args[2], env, cache)
    else:
        a = [evaluate(y, env, cache) for y in x.args]
        if op == 'fp.add':
            r = a[0] + a[1]
        elif op == 'fp.sub':
            r = a[0] - a[1]
        elif op == 'fp.mul':
            r = a[0] * a[1]
        elif op == 'fp.div':
            r = a[0] / a[1] if a[1] != 0 else float('nan')
        elif op == 'fp.fmod':
            r = fmod(a[0], a[1])
        elif op == 'fp.neg':
            r = -a[0]
        elif op == 'fp.round':
            r = rust_round(a[0])
        else:
            raise Unsupported('fp evaluate %s' % op)
    cache[x.id] = r
    return r


def eval_bool(c, env, cache=None):
    """width-1 term that may contain fpcmp nodes"""
    if not isinstance(c, Term):
        return c & 1
    if c.op.startswith('fpcmp.'):
        a = [evaluate(y, env, cache) for y in c.args]
        k = c.op[6:]
        if k == 'finite':
            return 1 if (a[0] == a[0] and abs(a[0]) != float('inf')) else 0
        return 1 if {'eq': a[0] == a[1], 'lt': a[0] < a[1], 'le': a[0] <= a[1]}[k] else 0
    if c.op == 'not':
        return 1 - eval_bool(c.args[0], env, cache)
    if c.op == 'and':
        return 1 if all(eval_bool(y, env, cache) for y in c.args) else 0
    if c.op == 'or':
        return 1 if any(eval_bool(y, env, cache) for y in c.args) else 0
    if c.op == 'const':
        return c.val & 1
    return T.evaluate(c, env) & 1
