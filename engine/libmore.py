"""Further library models: functions the pinned crate does not use but which a realistic refactoring of it would
(iterator adaptors and consumers, Option combinators, ASCII classifiers, slice helpers).  Same conventions as lib.py;
every model follows the documented semantics of the std function and raises Unsupported where it would have to guess."""
import re
from . import terms as T
from .terms import Term
from .mirsym import (L, Ptr, SliceRef, FnRef, Guarded, Float, UNIT, DEAD, Unsupported, OpaqueSlice)
from .mirparse import parse_type


def _tbl(pred):
    return [1 if pred(i) else 0 for i in range(256)]


ASCII_CLASSES = {
    'is_ascii_digit': _tbl(lambda c: 0x30 <= c <= 0x39),
    'is_ascii_uppercase': _tbl(lambda c: 0x41 <= c <= 0x5A),
    'is_ascii_lowercase': _tbl(lambda c: 0x61 <= c <= 0x7A),
    'is_ascii_alphabetic': _tbl(lambda c: 0x41 <= c <= 0x5A or 0x61 <= c <= 0x7A),
    'is_ascii_alphanumeric': _tbl(lambda c: 0x30 <= c <= 0x39 or 0x41 <= c <= 0x5A or 0x61 <= c <= 0x7A),
    'is_ascii_hexdigit': _tbl(lambda c: 0x30 <= c <= 0x39 or 0x41 <= c <= 0x46 or 0x61 <= c <= 0x66),
    'is_ascii_punctuation': _tbl(lambda c: 0x21 <= c <= 0x2F or 0x3A <= c <= 0x40 or 0x5B <= c <= 0x60 or 0x7B <= c <= 0x7E),
    'is_ascii_graphic': _tbl(lambda c: 0x21 <= c <= 0x7E),
    'is_ascii_whitespace': _tbl(lambda c: c in (0x20, 0x09, 0x0A, 0x0C, 0x0D)),
    'is_ascii_control': _tbl(lambda c: c < 0x20 or c == 0x7F),
    'is_ascii': _tbl(lambda c: c < 0x80),
}


def register(lib):
    I = lib.I
    reg = lib.reg

    def byte_of(v, name):
        """u8 / char argument (by value or by reference) -> (8-bit value, is_char, original width)"""
        if type(v) is Ptr:
            v = v.c[v.k]
        if type(v) is Term and v.w == 32:
            return v, True
        return v, ('char' in name.split('::<impl ')[-1][:6])

    # ---- ASCII classifiers on u8 and char
    @reg(r'^(core::)?(num|char::methods)::<impl (u8|char)>::(is_ascii_\w+|is_ascii)$', 'u8/char::is_ascii_*')
    def _is_ascii(fr, name, args, ops):
        m = re.search(r'<impl (u8|char)>::(\w+)$', name)
        ty, fn = m.group(1), m.group(2)
        if fn not in ASCII_CLASSES:
            raise Unsupported('no model for %s' % name)
        v = args[0]
        if type(v) is Ptr:
            v = v.c[v.k]
        tbl = ASCII_CLASSES[fn]
        if type(v) is int:
            return tbl[v] if v < 256 else 0
        if ty == 'char' or v.w == 32:
            lo = T.lut(tbl, T.trunc(v.w, 8, v), 1)
            return T.land(T.ult(v.w, v, 256), lo)
        return T.lut(tbl, v, 1)

    @reg(r'^(core::)?(num|char::methods)::<impl (u8|char)>::to_ascii_(upper|lower)case$', 'u8/char::to_ascii_*case')
    def _to_ascii_case(fr, name, args, ops):
        up = name.endswith('uppercase')
        v = args[0]
        if type(v) is Ptr:
            v = v.c[v.k]
        tbl = [(c - 32 if 0x61 <= c <= 0x7A else c) if up else (c + 32 if 0x41 <= c <= 0x5A else c) for c in range(256)]
        if type(v) is int:
            return tbl[v] if v < 256 else v
        if v.w == 32:
            return T.ite(32, T.ult(32, v, 256), T.zext(8, 32, T.lut(tbl, T.trunc(32, 8, v), 8)), v)
        return T.lut(tbl, v, 8)

    @reg(r'^<char as From<u8>>::from$', 'char::from(u8)')
    def _char_from_u8(fr, name, args, ops):
        return T.zext(8, 32, args[0])

    @reg(r'^(core::)?char::methods::<impl char>::from_digit$|^char::from_digit$|^std::char::from_digit$|^core::char::from_digit$', 'char::from_digit')
    def _from_digit(fr, name, args, ops):
        d, radix = args
        radix = lib.concrete(radix, 'radix')
        if radix < 2 or radix > 36:
            return I.panic(fr, 'from_digit: radix is too high (maximum 36)')
        chars = '0123456789abcdefghijklmnopqrstuvwxyz'
        if type(d) is int:
            return lib.some(ord(chars[d])) if d < radix else lib.none()
        ok = T.ult(32, d, radix)
        val = T.zext(8, 32, T.select_const([ord(c) for c in chars[:radix]], 8, T.zext(32, 64, d), 64))
        return I.mk([T.zext(1, 64, ok), val], 'enum')

    # ---- Option combinators
    def opt_type(name):
        m_ = re.match(r'^Option::<(.*?)>::\w+', name)
        if m_:
            try:
                return parse_type('Option<%s>' % m_.group(1))
            except Exception:
                return None
        return None

    @reg(r'^Option::<.*>::or_else::<', 'Option::or_else')
    def _or_else(fr, name, args, ops):
        o, f = args
        d = o[0]
        if type(d) is int:
            return o if d == 1 else I.call_closure(fr, f, [])
        I.pc.append(T.eq(64, d, 0))
        try:
            alt = I.call_closure(fr, f, [])
        finally:
            I.pc.pop()
        if alt is DEAD:
            raise Unsupported('closure of or_else diverges under a symbolic Option')
        return I.merge(T.eq(64, d, 1), o, alt, opt_type(name))

    @reg(r'^Option::<.*>::or$', 'Option::or')
    def _or(fr, name, args, ops):
        o, alt = args
        d = o[0]
        if type(d) is int:
            return o if d == 1 else alt
        return I.merge(T.eq(64, d, 1), o, alt, opt_type(name))

    @reg(r'^Option::<.*>::take$', 'Option::take')
    def _take(fr, name, args, ops):
        p = args[0]
        o = lib.deref(p)
        I.write(p.c, p.k, lib.none())
        return o

    @reg(r'^Option::<.*>::replace$', 'Option::replace')
    def _replace(fr, name, args, ops):
        p = args[0]
        o = lib.deref(p)
        I.write(p.c, p.k, lib.some(args[1]))
        return o

    @reg(r'^Option::<.*>::insert$', 'Option::insert')
    def _insert(fr, name, args, ops):
        p = args[0]
        n = lib.some(args[1])
        I.write(p.c, p.k, n)
        return Ptr(n, 1)

    @reg(r'^Option::<.*>::get_or_insert_with::<', 'Option::get_or_insert_with')
    def _goiw(fr, name, args, ops):
        p, f = args
        o = lib.deref(p)
        if type(o[0]) is not int:
            raise Unsupported('get_or_insert_with on a symbolic Option')
        if o[0] == 0:
            o = lib.some(I.call_closure(fr, f, []))
            I.write(p.c, p.k, o)
        return Ptr(o, 1)

    @reg(r'^Option::<.*>::ok_or::<', 'Option::ok_or')
    def _ok_or(fr, name, args, ops):
        o, e = args
        d = o[0]
        if type(d) is int:
            return lib.ok(o[1]) if d == 1 else lib.err(e)
        return I.mk([T.zext(1, 64, T.eq(64, d, 0)), {0: I.mk([lib.payload(o, 1)]), 1: I.mk([e])}], 'symenum')

    @reg(r'^Option::<.*>::map_or::<', 'Option::map_or')
    def _map_or(fr, name, args, ops):
        o, dflt, f = args
        d = o[0]
        if type(d) is int:
            return I.call_closure(fr, f, [o[1]]) if d == 1 else dflt
        I.pc.append(T.eq(64, d, 1))
        try:
            r = I.call_closure(fr, f, [lib.payload(o, 1)])
        finally:
            I.pc.pop()
        if r is DEAD:
            raise Unsupported('closure of map_or diverges under a symbolic Option')
        return I.merge(T.eq(64, d, 1), r, dflt, None)

    @reg(r'^Option::<.*>::is_some_and::<', 'Option::is_some_and')
    def _is_some_and(fr, name, args, ops):
        o, f = args
        d = o[0]
        if type(d) is int:
            return I.call_closure(fr, f, [o[1]]) if d == 1 else 0
        I.pc.append(T.eq(64, d, 1))
        try:
            r = I.call_closure(fr, f, [lib.payload(o, 1)])
        finally:
            I.pc.pop()
        if r is DEAD:
            raise Unsupported('closure of is_some_and diverges under a symbolic Option')
        return T.land(T.eq(64, d, 1), r)

    @reg(r'^Option::<.*>::filter::<', 'Option::filter')
    def _filter(fr, name, args, ops):
        o, f = args
        d = o[0]
        if type(d) is int:
            if d == 0:
                return o
            cell = I.mk([o[1]])
            keep = I.call_closure(fr, f, [Ptr(cell, 0)])
            if type(keep) is int:
                return o if keep else lib.none()
            return I.mk([T.zext(1, 64, keep), o[1]], 'enum')
        cell = I.mk([lib.payload(o, 1)])
        I.pc.append(T.eq(64, d, 1))
        try:
            keep = I.call_closure(fr, f, [Ptr(cell, 0)])
        finally:
            I.pc.pop()
        if keep is DEAD:
            raise Unsupported('closure of filter diverges under a symbolic Option')
        return I.mk([T.zext(1, 64, T.land(T.eq(64, d, 1), keep)), lib.payload(o, 1)], 'enum')

    @reg(r'^Option::<.*>::(copied|cloned)(::<.*>)?$', 'Option::copied')
    def _copied(fr, name, args, ops):
        o = args[0]
        d = o[0]
        if type(d) is int:
            return lib.some(I.copy_val(lib.deref(o[1]))) if d == 1 else o
        if o.tag == 'symenum':
            some = o[1].get(1)
            if some is None:
                return o
            return I.mk([d, {0: I.mk([]), 1: I.mk([I.copy_val(lib.deref(some[0]))])}], 'symenum')
        return I.mk([d, I.copy_val(lib.deref(o[1]))], 'enum')

    # ---- iterator adaptors
    @reg(r'^<.* as Iterator>::zip::<', 'Iterator::zip')
    def _zip(fr, name, args, ops):
        b = args[1]
        if not (type(b) is L and b.tag in ITER):
            b = I.call(fr, '<X as IntoIterator>::into_iter', [b], None)
        return I.mk([args[0], b], 'Zip')

    @reg(r'^<.* as Iterator>::take$', 'Iterator::take')
    def _take_n(fr, name, args, ops):
        return I.mk([args[0], lib.concrete(args[1], 'take count')], 'Take')

    @reg(r'^<.* as Iterator>::(copied|cloned)(::<.*>)?$', 'Iterator::copied')
    def _it_copied(fr, name, args, ops):
        return I.mk([args[0]], 'Copied')

    @reg(r'^<.* as Iterator>::by_ref$', 'Iterator::by_ref')
    def _by_ref(fr, name, args, ops):
        return args[0]            # &mut Self: the very same iterator, consumption is shared with the original

    @reg(r'^core::slice::<impl \[.*\]>::chunks$', 'slice::chunks')
    def _chunks(fr, name, args, ops):
        sl = lib.as_slice(args[0])
        n = lib.concrete(args[1], 'chunk size')
        if n == 0:
            return I.panic(fr, 'chunk size must be non-zero')
        return I.mk([sl, 0, n], 'Chunks')

    @reg(r'^core::slice::<impl \[.*\]>::windows$', 'slice::windows')
    def _windows(fr, name, args, ops):
        sl = lib.as_slice(args[0])
        n = lib.concrete(args[1], 'window size')
        if n == 0:
            return I.panic(fr, 'window size must be non-zero')
        return I.mk([sl, 0, n], 'Windows')

    @reg(r'^core::slice::iter::ChunksExact::<.*>::remainder$|^ChunksExact::<.*>::remainder$', 'ChunksExact::remainder')
    def _ce_rem(fr, name, args, ops):
        it = lib.deref(args[0])
        sl, pos, n = it
        k = (sl.len // n) * n
        return SliceRef(sl.c, sl.start + k, sl.len - k, sl.is_str)

    # ---- iterator consumers (closures must be pure; every element is visited, which is the semantics up to side effects)
    def each(it):
        while True:
            ok, v = lib.it_next(it)
            if not ok:
                return
            yield v

    def spoil(it, why):
        """a short-circuiting consumer (all / any / position) ran over `it` with a symbolic condition: the real iterator stops
        after the deciding element, where that is depends on the data.  The models visit every element (right for the result),
        so what is left in a borrowed iterator afterwards is not modelled: any later use of it must not yield a verdict."""
        from .mirsym import Poison
        for k in range(len(it)):
            it[k] = Poison(why)

    @reg(r'^<.* as Iterator>::all::<', 'Iterator::all')
    def _all(fr, name, args, ops):
        it, f = lib.deref(args[0]) if type(args[0]) is Ptr else args[0], args[1]
        acc = 1
        for v in each(it):
            I.pc.append(acc) if type(acc) is Term else None
            try:
                r = I.call_closure(fr, f, [v])
            finally:
                I.pc.pop() if type(acc) is Term else None
            if r is DEAD:
                raise Unsupported('closure of all() diverges')
            acc = T.land(acc, r)
            if type(acc) is int and not acc:
                return 0
        if type(acc) is not int:
            spoil(it, 'iterator after all() with a symbolic condition')
        return acc

    @reg(r'^<.* as Iterator>::any::<', 'Iterator::any')
    def _any(fr, name, args, ops):
        it, f = lib.deref(args[0]) if type(args[0]) is Ptr else args[0], args[1]
        acc = 0
        for v in each(it):
            r = I.call_closure(fr, f, [v])
            if r is DEAD:
                raise Unsupported('closure of any() diverges')
            acc = T.lor(acc, r)
            if type(acc) is int and acc:
                return 1
        if type(acc) is not int:
            spoil(it, 'iterator after any() with a symbolic condition')
        return acc

    @reg(r'^<.* as Iterator>::position::<', 'Iterator::position')
    def _position(fr, name, args, ops):
        it, f = lib.deref(args[0]) if type(args[0]) is Ptr else args[0], args[1]
        hits = []
        for v in each(it):
            r = I.call_closure(fr, f, [v])
            if r is DEAD:
                raise Unsupported('closure of position() diverges')
            hits.append(r)
            if type(r) is int and r:
                break
        found = T.or_many(hits) if hits else 0
        if type(found) is not int or any(type(h) is not int for h in hits):
            spoil(it, 'iterator after position() with a symbolic condition')
        idx = 0
        for k in range(len(hits) - 1, -1, -1):
            idx = T.ite(64, hits[k], k, idx)
        if type(found) is int:
            return lib.some(idx) if found else lib.none()
        return I.mk([T.zext(1, 64, found), idx], 'enum')

    @reg(r'^<.* as Iterator>::fold::<', 'Iterator::fold')
    def _fold(fr, name, args, ops):
        it, acc, f = args
        for v in each(it):
            acc = I.call_closure(fr, f, [acc, v])
            if acc is DEAD:
                return DEAD
        return acc

    @reg(r'^<.* as Iterator>::for_each::<', 'Iterator::for_each')
    def _for_each(fr, name, args, ops):
        it, f = args
        for v in each(it):
            if I.call_closure(fr, f, [v]) is DEAD:
                return DEAD
        return UNIT

    @reg(r'^<.* as Iterator>::sum::<(u8|u16|u32|u64|usize)>$', 'Iterator::sum (unsigned)')
    def _sum(fr, name, args, ops):
        w = parse_type(re.search(r'sum::<(\w+)>$', name).group(1)).bits
        acc = 0
        from .mirsym import Obligation
        for v in each(args[0]):
            if type(v) is Ptr:
                v = v.c[v.k]
            s = T.add(w, acc, v)
            # debug builds: `attempt to add with overflow`
            c = T.lnot(T.ult(w, s, acc)) if not (type(acc) is int and type(v) is int) else (1 if acc + v < (1 << w) else 0)
            if type(c) is int:
                if not c:
                    return I.panic(fr, 'attempt to add with overflow')
            elif not (type(s) is Term and s.ub is not None and T.umax(acc, w) + T.umax(v, w) < (1 << w)):
                I.obligations.append(Obligation(tuple(I.pc), c, 'assert', 'Iterator::sum', 'attempt to add with overflow'))
            acc = s
        return acc

    @reg(r'^<.* as Iterator>::(max|min)$', 'Iterator::max/min (unsigned integers)')
    def _maxmin(fr, name, args, ops):
        want_max = name.endswith('max')
        best = None
        for v in each(args[0]):
            if type(v) is Ptr:
                raise Unsupported('max/min over references')
            if type(v) not in (int, Term):
                raise Unsupported('max/min over non-integers')
            if best is None:
                best = v
                continue
            w = max([x.w for x in (best, v) if type(x) is Term] + [8])
            if type(best) is int and type(v) is int:
                best = max(best, v) if want_max else min(best, v)
            elif want_max:
                best = T.ite(w, T.ult(w, v, best), best, v)       # the last maximum wins
            else:
                best = T.ite(w, T.ult(w, v, best), v, best)       # the first minimum wins
        return lib.none() if best is None else lib.some(best)

    @reg(r'^<.* as Iterator>::last$', 'Iterator::last')
    def _last(fr, name, args, ops):
        last = None
        for v in each(args[0]):
            last = (v,)
        return lib.none() if last is None else lib.some(last[0])

    @reg(r'^<.* as Iterator>::nth$', 'Iterator::nth')
    def _nth(fr, name, args, ops):
        it = lib.deref(args[0])
        n = lib.concrete(args[1], 'nth index')
        for _ in range(n):
            ok, _v = lib.it_next(it)
            if not ok:
                return lib.none()
        return lib.opt(lib.it_next(it))

    @reg(r'^<.* as ExactSizeIterator>::len$', 'ExactSizeIterator::len')
    def _it_len(fr, name, args, ops):
        it = lib.deref(args[0])
        if it.tag == 'SliceIter':
            return it[2] - it[1]
        if it.tag == 'Range':
            return max(0, lib.concrete(it[1], 'range end') - lib.concrete(it[0], 'range start'))
        if it.tag == 'ArrIter':
            return len(it[0]) - it[1]
        if it.tag == 'ChunksExact':
            return (it[0].len - it[1]) // it[2]
        raise Unsupported('len of iterator %s' % it.tag)

    # ---- slices / Vec
    @reg(r'^core::slice::<impl \[.*\]>::contains$', 'slice::contains')
    def _contains(fr, name, args, ops):
        sl = lib.as_slice(args[0])
        x = lib.deref(args[1])
        acc = 0
        for e in sl.items():
            if type(e) not in (int, Term) or type(x) not in (int, Term):
                raise Unsupported('contains over non-scalar elements')
            w = max([t.w for t in (e, x) if type(t) is Term] + [8])
            acc = T.lor(acc, T.eq(w, e, x))
        return acc

    @reg(r'^core::slice::<impl \[.*\]>::first$', 'slice::first')
    def _first(fr, name, args, ops):
        sl = lib.as_slice(args[0])
        return lib.some(Ptr(sl.c, sl.start)) if sl.len else lib.none()

    @reg(r'^core::slice::<impl \[.*\]>::is_empty$', 'slice::is_empty')
    def _sl_empty(fr, name, args, ops):
        if type(args[0]) is OpaqueSlice:
            return T.eq(64, args[0].length, 0)
        return 1 if lib.as_slice(args[0]).len == 0 else 0

    @reg(r'^core::slice::<impl \[.*\]>::get(::<usize>)?$', 'slice::get (index)')
    def _get(fr, name, args, ops):
        sl = lib.as_slice(args[0])
        i = args[1]
        if type(i) is int:
            return lib.some(Ptr(sl.c, sl.start + i)) if i < sl.len else lib.none()
        raise Unsupported('slice::get with a symbolic or range index')

    @reg(r'^core::slice::<impl \[.*\]>::split_at$', 'slice::split_at')
    def _split_at(fr, name, args, ops):
        sl = lib.as_slice(args[0])
        k = lib.concrete(args[1], 'split point')
        if k > sl.len:
            return I.panic(fr, 'mid > len')
        return I.mk([SliceRef(sl.c, sl.start, k, sl.is_str), SliceRef(sl.c, sl.start + k, sl.len - k, sl.is_str)])

    @reg(r'^core::slice::<impl \[.*\]>::fill$', 'slice::fill')
    def _fill(fr, name, args, ops):
        sl = lib.as_slice(args[0])
        for i in range(sl.len):
            I.write(sl.c, sl.start + i, I.copy_val(args[1]) if type(args[1]) is L else args[1])
        return UNIT

    @reg(r'^core::slice::<impl \[.*\]>::swap$', 'slice::swap')
    def _swap(fr, name, args, ops):
        sl = lib.as_slice(args[0])
        a, b = lib.concrete(args[1], 'swap index'), lib.concrete(args[2], 'swap index')
        if a >= sl.len or b >= sl.len:
            return I.panic(fr, 'index out of bounds')
        x, y = sl.c[sl.start + a], sl.c[sl.start + b]
        I.write(sl.c, sl.start + a, y)
        I.write(sl.c, sl.start + b, x)
        return UNIT

    @reg(r'^core::slice::<impl \[.*\]>::reverse$', 'slice::reverse')
    def _reverse(fr, name, args, ops):
        sl = lib.as_slice(args[0])
        vals = sl.items()[::-1]
        for i, v in enumerate(vals):
            I.write(sl.c, sl.start + i, v)
        return UNIT

    @reg(r'^Vec::<.*>::extend_from_slice$', 'Vec::extend_from_slice')
    def _efs(fr, name, args, ops):
        v = lib.deref(args[0])
        src = lib.as_slice(args[1]).items()
        I.structural(v[0])
        v[0].extend(I.copy_val(x) if type(x) is L else x for x in src)
        return UNIT

    @reg(r'^Vec::<.*>::clear$', 'Vec::clear')
    def _clear(fr, name, args, ops):
        v = lib.deref(args[0])
        I.structural(v[0])
        del v[0][:]
        return UNIT

    @reg(r'^Vec::<.*>::truncate$', 'Vec::truncate')
    def _truncate(fr, name, args, ops):
        v = lib.deref(args[0])
        n = lib.concrete(args[1], 'truncate length')
        if n < len(v[0]):
            I.structural(v[0])
            del v[0][n:]
        return UNIT

    @reg(r'^Vec::<.*>::pop$', 'Vec::pop')
    def _pop(fr, name, args, ops):
        v = lib.deref(args[0])
        if not len(v[0]):
            return lib.none()
        if any(type(x) is Guarded for x in v[0]):
            raise Unsupported('pop from a vector with conditional pieces')
        I.structural(v[0])
        return lib.some(v[0].pop())

    @reg(r'^Vec::<.*>::as_slice$|^Vec::<.*>::as_mut_slice$', 'Vec::as_slice')
    def _as_slice(fr, name, args, ops):
        return lib.as_slice(args[0])

    @reg(r'^<Vec<.*> as Extend<.*>>::extend::<', 'Vec::extend')
    def _extend(fr, name, args, ops):
        v = lib.deref(args[0])
        src = args[1]
        if not (type(src) is L and src.tag in ITER):
            src = I.call(fr, '<X as IntoIterator>::into_iter', [src], None)
        out = []
        for x in each(src):
            if x is DEAD:
                return DEAD
            out.append(lib.deref(x) if ('&' in name.split('Extend<')[1][:2] and type(x) is Ptr) else x)
        I.structural(v[0])
        v[0].extend(out)
        return UNIT


ITER = ('Range', 'RangeIncl', 'StepBy', 'Rev', 'Chain', 'Enumerate', 'Skip', 'SliceIter', 'ArrIter', 'ChunksExact', 'Map',
        'Filter', 'Zip', 'Take', 'Copied', 'Chunks', 'Windows')


def register_cells(lib):
    """interior mutability containers: Cell, OnceCell / OnceLock (single-threaded semantics: the executor runs one thread)"""
    I = lib.I
    reg = lib.reg

    @reg(r'^(std::cell::|core::cell::)?Cell::<.*>::new$', 'Cell::new')
    def _cell_new(fr, name, args, ops):
        return I.mk([args[0]], 'Cell')

    @reg(r'^(std::cell::|core::cell::)?Cell::<.*>::get$', 'Cell::get')
    def _cell_get(fr, name, args, ops):
        v = lib.deref(args[0])[0]
        return I.copy_val(v) if type(v) is L else v

    @reg(r'^(std::cell::|core::cell::)?Cell::<.*>::set$', 'Cell::set')
    def _cell_set(fr, name, args, ops):
        I.write(lib.deref(args[0]), 0, args[1])
        return UNIT

    @reg(r'^(std::cell::|core::cell::)?Cell::<.*>::replace$', 'Cell::replace')
    def _cell_replace(fr, name, args, ops):
        c = lib.deref(args[0])
        old = c[0]
        I.write(c, 0, args[1])
        return old

    @reg(r'^(std::cell::|core::cell::)?Cell::<Option<.*>>::take$', 'Cell<Option>::take')
    def _cell_take(fr, name, args, ops):
        c = lib.deref(args[0])
        old = c[0]
        I.write(c, 0, lib.none())
        return old

    @reg(r'^(std::sync::|std::cell::|core::cell::)?Once(Lock|Cell)::<.*>::new$', 'OnceLock::new')
    def _once_new(fr, name, args, ops):
        return I.mk([lib.none()], 'OnceLock')

    def shared(o):
        """Option value in variant-map form -> shared-payload form [discriminant, payload]"""
        if type(o) is L and o.tag == 'symenum':
            some = o[1].get(1)
            if some is None or len(some) == 0:
                return I.mk([o[0]], 'enum')
            return I.mk([o[0], some[0]], 'enum')
        return o

    @reg(r'^(std::sync::|std::cell::|core::cell::)?Once(Lock|Cell)::<.*>::get$', 'OnceLock::get')
    def _once_get(fr, name, args, ops):
        c = lib.deref(args[0])
        o = shared(c[0])
        if type(o[0]) is not int:
            if o.tag == 'symenum':
                raise Unsupported('OnceLock state in variant-map form')
            return I.mk([o[0], Ptr(o, 1)], 'enum')           # Some(&value) iff initialised
        return lib.some(Ptr(o, 1)) if o[0] == 1 else lib.none()

    @reg(r'^(std::sync::|std::cell::|core::cell::)?Once(Lock|Cell)::<.*>::set$', 'OnceLock::set')
    def _once_set(fr, name, args, ops):
        c = lib.deref(args[0])
        o = shared(c[0])
        d = o[0]
        if type(d) is not int:
            if o.tag == 'symenum':
                raise Unsupported('OnceLock state in variant-map form')
            was = T.eq(64, d, 1)
            old = o[1] if len(o) > 1 else args[1]
            I.write(c, 0, I.mk([1, I.merge(was, old, args[1], None)], 'enum'))
            return I.mk([T.zext(1, 64, was), {0: I.mk([UNIT]), 1: I.mk([args[1]])}], 'symenum')
        if d == 1:
            return lib.err(args[1])
        I.write(c, 0, lib.some(args[1]))
        return lib.ok(UNIT)

    @reg(r'^(std::sync::|std::cell::|core::cell::)?Once(Lock|Cell)::<.*>::get_or_init::<', 'OnceLock::get_or_init')
    def _once_goi(fr, name, args, ops):
        c = lib.deref(args[0])
        o = c[0]
        if type(o[0]) is not int:
            raise Unsupported('OnceLock with a symbolic initialisation state')
        if o[0] == 0:
            o = lib.some(I.call_closure(fr, args[1], []))
            I.write(c, 0, o)
        return Ptr(o, 1)

    @reg(r'^(std::sync::|std::cell::|core::cell::)?Once(Lock|Cell)::<.*>::take$', 'OnceLock::take')
    def _once_take(fr, name, args, ops):
        c = lib.deref(args[0])
        o = c[0]
        I.write(c, 0, lib.none())
        return o

    @reg(r'^(std::sync::|std::cell::|core::cell::)?Once(Lock|Cell)::<.*>::into_inner$', 'OnceLock::into_inner')
    def _once_into(fr, name, args, ops):
        return args[0][0]


def register_ints(lib):
    """integer inherent methods (unsigned types; the crate has no signed arithmetic outside isize comparisons)"""
    I = lib.I
    reg = lib.reg
    from .mirsym import Obligation

    def width(name):
        m = re.search(r'<impl (u8|u16|u32|u64|usize)>', name)
        return parse_type(m.group(1)).bits

    def both(args):
        return args[0], args[1]

    @reg(r'^core::num::<impl (u8|u16|u32|u64|usize)>::saturating_sub$', 'uN::saturating_sub')
    def _sat_sub(fr, name, args, ops):
        w = width(name)
        a, b = both(args)
        if type(a) is int and type(b) is int:
            return max(0, a - b)
        return T.ite(w, T.ult(w, a, b), 0, T.sub(w, a, b))

    @reg(r'^core::num::<impl (u8|u16|u32|u64|usize)>::saturating_add$', 'uN::saturating_add')
    def _sat_add(fr, name, args, ops):
        w = width(name)
        a, b = both(args)
        m = (1 << w) - 1
        if type(a) is int and type(b) is int:
            return min(m, a + b)
        s = T.add(w, a, b)
        return T.ite(w, T.ult(w, s, a), m, s)

    @reg(r'^core::num::<impl (u8|u16|u32|u64|usize)>::wrapping_(add|sub|mul)$', 'uN::wrapping_*')
    def _wrapping(fr, name, args, ops):
        w = width(name)
        a, b = both(args)
        op = name.rsplit('_', 1)[1]
        return {'add': T.add, 'sub': T.sub, 'mul': T.mul}[op](w, a, b)

    @reg(r'^core::num::<impl (u8|u16|u32|u64|usize)>::checked_(add|sub|mul)$', 'uN::checked_*')
    def _checked(fr, name, args, ops):
        w = width(name)
        a, b = both(args)
        op = name.rsplit('_', 1)[1]
        if type(a) is int and type(b) is int:
            r = {'add': a + b, 'sub': a - b, 'mul': a * b}[op]
            return lib.some(r) if 0 <= r < (1 << w) else lib.none()
        if op == 'add':
            r = T.add(w, a, b)
            ok = T.lnot(T.ult(w, r, a))
        elif op == 'sub':
            r = T.sub(w, a, b)
            ok = T.lnot(T.ult(w, a, b))
        else:
            wide = T.mul(2 * w, T.zext(w, 2 * w, a), T.zext(w, 2 * w, b))
            r = T.trunc(2 * w, w, wide)
            ok = T.ult(2 * w, wide, 1 << w)
        return I.mk([T.zext(1, 64, ok), r], 'enum')

    @reg(r'^core::num::<impl (u8|u16|u32|u64|usize)>::(min|max)$|^<(u8|u16|u32|u64|usize) as Ord>::(min|max)$', 'uN::min/max')
    def _minmax(fr, name, args, ops):
        m = re.search(r'(u8|u16|u32|u64|usize)', name)
        w = parse_type(m.group(1)).bits
        a, b = both(args)
        if type(a) is int and type(b) is int:
            return min(a, b) if name.endswith('min') else max(a, b)
        lt = T.ult(w, b, a)
        return T.ite(w, lt, b, a) if name.endswith('min') else T.ite(w, lt, a, b)

    @reg(r'^core::num::<impl (u8|u16|u32|u64|usize)>::abs_diff$', 'uN::abs_diff')
    def _abs_diff(fr, name, args, ops):
        w = width(name)
        a, b = both(args)
        if type(a) is int and type(b) is int:
            return abs(a - b)
        return T.ite(w, T.ult(w, a, b), T.sub(w, b, a), T.sub(w, a, b))

    @reg(r'^core::num::<impl (u8|u16|u32|u64|usize)>::div_ceil$', 'uN::div_ceil')
    def _div_ceil(fr, name, args, ops):
        w = width(name)
        a, b = both(args)
        if type(b) is not int:
            raise Unsupported('div_ceil by a symbolic divisor')
        if b == 0:
            return I.panic(fr, 'attempt to divide by zero')
        if type(a) is int:
            return -(-a // b)
        q = T.udiv(w, a, b)
        r = T.urem(w, a, b)
        return T.add(w, q, T.zext(1, w, T.ne(w, r, 0)))

    @reg(r'^core::num::<impl (u8|u16|u32|u64|usize)>::pow$', 'uN::pow')
    def _pow(fr, name, args, ops):
        w = width(name)
        a, e = both(args)
        e = lib.concrete(e, 'exponent')
        acc = 1
        for _ in range(e):
            if type(acc) is int and type(a) is int:
                acc = acc * a
                if acc >= (1 << w):
                    return I.panic(fr, 'attempt to multiply with overflow')
            else:
                wide = T.mul(2 * w, T.zext(w, 2 * w, acc), T.zext(w, 2 * w, a))
                c = T.ult(2 * w, wide, 1 << w)
                if type(c) is int:
                    if not c:
                        return I.panic(fr, 'attempt to multiply with overflow')
                else:
                    I.obligations.append(Obligation(tuple(I.pc), c, 'assert', 'uN::pow', 'attempt to multiply with overflow'))
                acc = T.trunc(2 * w, w, wide)
        return acc

    @reg(r'^core::num::<impl (u8|u16|u32|u64|usize)>::(count_ones|count_zeros|leading_zeros|trailing_zeros)$', 'uN::bit counts')
    def _bits(fr, name, args, ops):
        w = width(name)
        a = args[0]
        fn = name.rsplit('::', 1)[1]
        if type(a) is int:
            s = format(a, '0%db' % w)
            return {'count_ones': s.count('1'), 'count_zeros': s.count('0'), 'leading_zeros': len(s) - len(s.lstrip('0')),
                    'trailing_zeros': (len(s) - len(s.rstrip('0'))) if a else w}[fn]
        bits = [T.zext(1, 32, T.extract_bit(w, a, i)) for i in range(w)]
        if fn in ('count_ones', 'count_zeros'):
            acc = 0
            for b_ in bits:
                acc = T.add(32, acc, b_)
            return acc if fn == 'count_ones' else T.sub(32, w, acc)
        order = range(w - 1, -1, -1) if fn == 'leading_zeros' else range(w)
        res = w
        for k, i in reversed(list(enumerate(order))):
            res = T.ite(32, T.extract_bit(w, a, i), k, res)
        return res

    @reg(r'^core::num::<impl (u8|u16|u32|u64|usize)>::is_power_of_two$', 'uN::is_power_of_two')
    def _pow2(fr, name, args, ops):
        w = width(name)
        a = args[0]
        if type(a) is int:
            return 1 if a and not (a & (a - 1)) else 0
        return T.land(T.ne(w, a, 0), T.eq(w, T.band(w, a, T.sub(w, a, 1)), 0))

    @reg(r'^core::num::<impl (u8|u16|u32|u64|usize)>::rem_euclid$|^core::num::<impl (u8|u16|u32|u64|usize)>::div_euclid$', 'uN::rem_euclid/div_euclid')
    def _euclid(fr, name, args, ops):
        w = width(name)
        a, b = both(args)
        if type(b) is not int:
            raise Unsupported('euclidean division by a symbolic divisor')
        if b == 0:
            return I.panic(fr, 'attempt to divide by zero')
        if name.endswith('rem_euclid'):
            return a % b if type(a) is int else T.urem(w, a, b)
        return a // b if type(a) is int else T.udiv(w, a, b)


def register_cmp(lib):
    """structural equality of slices / arrays / vectors of scalars"""
    I = lib.I
    reg = lib.reg

    def seq_eq(a, b):
        if len(a) != len(b):
            return 0
        acc = 1
        for x, y in zip(a, b):
            if type(x) is Ptr:
                x = x.c[x.k]
            if type(y) is Ptr:
                y = y.c[y.k]
            if type(x) is L and type(y) is L and x.tag == y.tag and x.tag not in ('enum', 'symenum') and len(x) == len(y):
                acc = T.land(acc, seq_eq(list(x), list(y)))
                continue
            if type(x) not in (int, Term) or type(y) not in (int, Term):
                raise Unsupported('equality of non-scalar elements')
            w = max([t.w for t in (x, y) if type(t) is Term] + [8])
            acc = T.land(acc, T.eq(w, x, y))
            if type(acc) is int and not acc:
                return 0
        return acc

    @reg(r'^<\[.*\] as PartialEq(<.*>)?>::eq$|^<Vec<.*> as PartialEq(<.*>)?>::eq$|^<&\[.*\] as PartialEq(<.*>)?>::eq$|^<&mut \[.*\] as PartialEq(<.*>)?>::eq$',
         'slice/array/Vec equality')
    def _slice_eq(fr, name, args, ops):
        def items(v):
            if type(v) is Ptr and type(v.c[v.k]) in (SliceRef, Ptr):
                v = v.c[v.k]
            sl = lib.as_slice(v)
            if any(type(x) is Guarded for x in sl.items()):
                raise Unsupported('equality of sequences with conditional pieces')
            return sl.items()
        return seq_eq(items(args[0]), items(args[1]))

    @reg(r'^core::slice::<impl \[.*\]>::starts_with$', 'slice::starts_with')
    def _sl_starts(fr, name, args, ops):
        a, b = lib.as_slice(args[0]).items(), lib.as_slice(args[1]).items()
        return seq_eq(a[:len(b)], b) if len(b) <= len(a) else 0

    @reg(r'^core::slice::<impl \[.*\]>::ends_with$', 'slice::ends_with')
    def _sl_ends(fr, name, args, ops):
        a, b = lib.as_slice(args[0]).items(), lib.as_slice(args[1]).items()
        return seq_eq(a[len(a) - len(b):], b) if len(b) <= len(a) else 0


def register_misc(lib):
    """mem::{swap, replace, take}, Default, TryFrom between unsigned integers, min/max_by_key, generic Clone of std values"""
    I = lib.I
    reg = lib.reg

    def default_of(tyname):
        t = tyname.strip()
        if re.match(r'^(u8|u16|u32|u64|usize|i8|i16|i32|i64|isize|bool|char)$', t):
            return 0
        if t.startswith('Vec<') or t.startswith('std::vec::Vec<'):
            return I.mk([I.mk([], 'buf'), 0], 'Vec')
        if t in ('String', 'std::string::String'):
            return lib.new_string([])
        if t.startswith('Option<') or t.startswith('std::option::Option<'):
            return lib.none()
        raise Unsupported('Default::default() of %s' % t)

    @reg(r'^(std|core)::mem::swap::<', 'mem::swap')
    def _swap(fr, name, args, ops):
        a, b = args
        x, y = a.c[a.k], b.c[b.k]
        I.write(a.c, a.k, y)
        I.write(b.c, b.k, x)
        return UNIT

    @reg(r'^(std|core)::mem::replace::<', 'mem::replace')
    def _replace(fr, name, args, ops):
        a = args[0]
        old = a.c[a.k]
        I.write(a.c, a.k, args[1])
        return old

    @reg(r'^(std|core)::mem::take::<(.*)>$', 'mem::take')
    def _take(fr, name, args, ops):
        a = args[0]
        old = a.c[a.k]
        I.write(a.c, a.k, default_of(re.match(r'^(?:std|core)::mem::take::<(.*)>$', name).group(1)))
        return old

    @reg(r'^<(.*) as Default>::default$', 'Default::default (std types)')
    def _default(fr, name, args, ops):
        return default_of(re.match(r'^<(.*) as Default>::default$', name).group(1))

    @reg(r'^<(u8|u16|u32|u64|usize) as TryFrom<(u8|u16|u32|u64|usize)>>::try_from$', 'TryFrom between unsigned integers')
    def _try_from(fr, name, args, ops):
        m = re.match(r'^<(\w+) as TryFrom<(\w+)>>', name)
        to, frm = parse_type(m.group(1)).bits, parse_type(m.group(2)).bits
        v = args[0]
        if to >= frm:
            return lib.ok(T.zext(frm, to, v) if type(v) is Term else v)
        if type(v) is int:
            return lib.ok(v) if v < (1 << to) else lib.err(I.mk(['TryFromIntError'], 'opaque'))
        fits = T.ult(frm, v, 1 << to)
        if type(fits) is int:
            return lib.ok(T.trunc(frm, to, v)) if fits else lib.err(I.mk(['TryFromIntError'], 'opaque'))
        return I.mk([T.zext(1, 64, T.lnot(fits)), {0: I.mk([T.trunc(frm, to, v)]), 1: I.mk([I.mk(['TryFromIntError'], 'opaque')])}], 'symenum')

    @reg(r'^<(.*) as TryInto<(.*)>>::try_into$', 'TryInto (via TryFrom)')
    def _try_into(fr, name, args, ops):
        m = re.match(r'^<(.*) as TryInto<(.*)>>::try_into$', name)
        return I.call(fr, '<%s as TryFrom<%s>>::try_from' % (m.group(2), m.group(1)), args, ops)

    @reg(r'^<.* as Iterator>::(min|max)_by_key::<', 'Iterator::min_by_key / max_by_key (unsigned keys)')
    def _by_key(fr, name, args, ops):
        want_min = '::min_by_key' in name
        it, f = args
        best = None
        while True:
            ok, v = lib.it_next(it)
            if not ok:
                break
            cell = I.mk([v])
            k = I.call_closure(fr, f, [Ptr(cell, 0)])
            if k is DEAD:
                raise Unsupported('key closure diverges')
            if type(k) not in (int, Term):
                raise Unsupported('min/max_by_key with a non-integer key')
            if best is None:
                best = (k, v)
                continue
            bk, bv = best
            w = max([x.w for x in (k, bk) if type(x) is Term] + [8])
            # min_by_key keeps the first of equal minima, max_by_key the last of equal maxima
            take = T.ult(w, k, bk) if want_min else T.lnot(T.ult(w, k, bk))
            if type(take) is int:
                if take:
                    best = (k, v)
                continue
            vty = None
            if type(v) is int and type(bv) in (int, Term) and it.tag in ('Range', 'RangeIncl'):
                vty = parse_type('usize')          # positions produced by a range
            best = (T.ite(w, take, k, bk), I.merge(take, v, bv, vty))
        return lib.none() if best is None else lib.some(best[1])


class _Panic(Exception):
    pass


def register_result(lib):
    I = lib.I
    reg = lib.reg
    from .mirsym import Obligation

    @reg(r'^<&?(u8|u16|u32|u64|usize) as (Add|Sub|Mul|Div|Rem|BitAnd|BitOr|BitXor)<&?(u8|u16|u32|u64|usize)>>::(add|sub|mul|div|rem|bitand|bitor|bitxor)$',
         'integer operators on references')
    def _ref_ops(fr, name, args, ops):
        m = re.match(r'^<&?(\w+) as (\w+)<', name)
        w = parse_type(m.group(1)).bits
        op = m.group(2)
        a, b = [x.c[x.k] if type(x) is Ptr else x for x in args]
        conc = type(a) is int and type(b) is int

        def oblige(c, msg):
            if type(c) is int:
                if not c:
                    raise_panic(msg)
                return
            I.obligations.append(Obligation(tuple(I.pc), c, 'assert', 'operator on references', msg))

        def raise_panic(msg):
            raise _Panic(msg)
        try:
            if op == 'Add':
                r = T.add(w, a, b)
                oblige((1 if a + b < (1 << w) else 0) if conc else T.lnot(T.ult(w, r, a)), 'attempt to add with overflow')
            elif op == 'Sub':
                r = T.sub(w, a, b)
                oblige((1 if a >= b else 0) if conc else T.lnot(T.ult(w, a, b)), 'attempt to subtract with overflow')
            elif op == 'Mul':
                r = T.mul(w, a, b)
                wide = T.mul(2 * w, T.zext(w, 2 * w, a) if type(a) is Term else a, T.zext(w, 2 * w, b) if type(b) is Term else b)
                oblige((1 if a * b < (1 << w) else 0) if conc else T.ult(2 * w, wide, 1 << w), 'attempt to multiply with overflow')
            elif op in ('Div', 'Rem'):
                oblige((1 if b != 0 else 0) if type(b) is int else T.ne(w, b, 0), 'attempt to divide by zero')
                r = (T.udiv if op == 'Div' else T.urem)(w, a, b)
            else:
                r = {'BitAnd': T.band, 'BitOr': T.bor, 'BitXor': T.bxor}[op](w, a, b)
        except _Panic as e:
            return I.panic(fr, str(e))
        return r

    @reg(r'^Result::<.*>::is_ok$', 'Result::is_ok')
    def _is_ok(fr, name, args, ops):
        return T.eq(64, lib.deref(args[0])[0], 0)

    @reg(r'^Result::<.*>::is_err$', 'Result::is_err')
    def _is_err(fr, name, args, ops):
        return T.eq(64, lib.deref(args[0])[0], 1)

    @reg(r'^Result::<.*>::map_or::<', 'Result::map_or')
    def _res_map_or(fr, name, args, ops):
        o, dflt, f = args
        d = o[0]
        if type(d) is int:
            return I.call_closure(fr, f, [o[1]]) if d == 0 else dflt
        I.pc.append(T.eq(64, d, 0))
        try:
            r = I.call_closure(fr, f, [lib.payload(o, 0)])
        finally:
            I.pc.pop()
        if r is DEAD:
            raise Unsupported('closure of map_or diverges under a symbolic Result')
        ty = None
        if type(r) is int and type(dflt) is int:
            ty = parse_type('usize')
        return I.merge(T.eq(64, d, 0), r, dflt, ty)

    @reg(r'^Result::<.*>::unwrap_or_else::<', 'Result::unwrap_or_else')
    def _res_uoe(fr, name, args, ops):
        o, f = args
        d = o[0]
        if type(d) is int:
            return o[1] if d == 0 else I.call_closure(fr, f, [o[1]])
        I.pc.append(T.eq(64, d, 1))
        try:
            alt = I.call_closure(fr, f, [lib.payload(o, 1)])
        finally:
            I.pc.pop()
        if alt is DEAD:
            raise Unsupported('closure of unwrap_or_else diverges under a symbolic Result')
        return I.merge(T.eq(64, d, 0), lib.payload(o, 0), alt, None)

    @reg(r'^Result::<.*>::unwrap_or_default$', 'Result::unwrap_or_default (integers)')
    def _uod(fr, name, args, ops):
        o = args[0]
        if type(o[0]) is int:
            return o[1] if o[0] == 0 else 0
        return I.merge(T.eq(64, o[0], 0), lib.payload(o, 0), 0, None)

    @reg(r'^core::str::<impl str>::bytes$', 'str::bytes')
    def _bytes(fr, name, args, ops):
        items = lib.str_items(args[0])
        if not all((type(x) is int and x < 0x80) or lib.is_byte_item(x) for x in items):
            raise Unsupported('bytes() of a string with concrete non-ASCII or conditional pieces')
        return I.mk([I.mk([T.trunc(x.w, 8, x) if type(x) is Term and x.w > 8 else x for x in items]), 0], 'ArrIter')

    @reg(r'^core::str::<impl str>::is_char_boundary$', 'str::is_char_boundary')
    def _icb(fr, name, args, ops):
        items = lib.str_items(args[0])
        k = lib.concrete(args[1], 'byte offset')
        if all(type(x) is int for x in items):
            enc = ''.join(chr(x) for x in items).encode('utf-8')          # concrete text: items are code points
            return 1 if (k == 0 or k == len(enc) or (k < len(enc) and (enc[k] & 0xC0) != 0x80)) else 0
        if any(type(x) is int and x >= 0x80 for x in items) or any(type(x) not in (int, Term) for x in items):
            raise Unsupported('is_char_boundary on a string mixing concrete non-ASCII and symbolic pieces')
        return lib.char_boundary(items, k)


def register_text_more(lib):
    I = lib.I
    reg = lib.reg

    @reg(r'^(core::)?char::methods::<impl char>::len_utf8$', 'char::len_utf8')
    def _len_utf8(fr, name, args, ops):
        c = args[0]
        if type(c) is int:
            return 1 if c < 0x80 else (2 if c < 0x800 else (3 if c < 0x10000 else 4))
        return T.ite(64, T.ult(32, c, 0x80), 1, T.ite(64, T.ult(32, c, 0x800), 2, T.ite(64, T.ult(32, c, 0x10000), 3, 4)))

    @reg(r'^String::pop$', 'String::pop')
    def _s_pop(fr, name, args, ops):
        s_ = lib.deref(args[0])
        buf = s_[0]
        if not len(buf):
            return lib.none()
        last = buf[-1]
        if type(last) not in (int, Term):
            raise Unsupported('String::pop on a string ending in a conditional piece')
        if lib.may_be_non_ascii(last) and type(last) is Term:
            raise Unsupported('String::pop of a byte that may belong to a multi-byte character')
        I.structural(buf)
        buf.pop()
        return lib.some(last)

    def replace_items(items, frm, to):
        """every item equal to the (ASCII) character `frm` becomes the text `to`; recursion into conditional pieces"""
        out = []
        for it in items:
            if type(it) is Guarded:
                out.append(Guarded(it.cond, replace_items(it.items, frm, to)))
            elif type(it) is int:
                out.extend(to if it == frm else [it])
            elif type(it) is Term:
                hit = T.eq(it.w, it, frm)
                if type(hit) is int:
                    out.extend(to if hit else [it])
                else:
                    out.append(Guarded(hit, list(to)))
                    out.append(Guarded(T.lnot(hit), [it]))
            else:
                raise Unsupported('replace over a non-character piece')
        return out

    @reg(r'^(std|alloc)::str::<impl str>::replace::<char>$', 'str::replace(char, &str)')
    def _replace_ch(fr, name, args, ops):
        frm = args[1]
        if type(frm) is not int or frm >= 0x80:
            raise Unsupported('replace of a symbolic or non-ASCII character')
        to = lib.str_items(args[2])
        return lib.new_string(replace_items(lib.str_items(args[0]), frm, to))
    lib.replace_items = replace_items

    @reg(r'^<String as Extend<(char|&char|&str|String)>>::extend::<', 'String::extend')
    def _s_extend(fr, name, args, ops):
        s_ = lib.deref(args[0])
        src = args[1]
        if not (type(src) is L and src.tag in ITER):
            src = I.call(fr, '<X as IntoIterator>::into_iter', [src], None)
        kind = re.match(r'^<String as Extend<(char|&char|&str|String)>>', name).group(1)
        out = []
        while True:
            ok, v = lib.it_next(src)
            if not ok:
                break
            if v is DEAD:
                return DEAD
            if kind == 'char':
                out.append(v)
            elif kind == '&char':
                out.append(lib.deref(v))
            else:
                out.extend(lib.str_items(v))
        I.appending(s_[0])
        s_[0].extend(out)
        return UNIT

    @reg(r'^<String as FromIterator<(char|&str|String)>>::from_iter::<|^<.* as Iterator>::collect::<String>$', 'collect::<String>')
    def _collect_string(fr, name, args, ops):
        src = args[0]
        if not (type(src) is L and src.tag in ITER):
            src = I.call(fr, '<X as IntoIterator>::into_iter', [src], None)
        out = []
        while True:
            ok, v = lib.it_next(src)
            if not ok:
                break
            if v is DEAD:
                return DEAD
            if type(v) in (int, Term):
                out.append(v)
            else:
                out.extend(lib.str_items(v))
        return lib.new_string(out)

    @reg(r'^(std|core)::f64::<impl f64>::(min|max)$', 'f64::min/max (finite operands)')
    def _fminmax(fr, name, args, ops):
        from . import fpterms as F
        a, b = args[0], args[1]
        want_min = name.endswith('min')
        x, y = a.v, b.v
        if not F.is_sym(x) and not F.is_sym(y) and not isinstance(x, F.Dy) and not isinstance(y, F.Dy):
            if x != x:
                return Float(y)
            if y != y:
                return Float(x)
            return Float(min(x, y) if want_min else max(x, y))
        lt = F.cmp('lt', x, y)
        # NaN operands are outside: the checks constrain every float they introduce to a finite interval
        return Float(F.ite(lt, x, y) if want_min else F.ite(lt, y, x))


def register_last(lib):
    """lowest priority fallbacks"""
    I = lib.I
    reg = lib.reg

    @reg(r'^<.* as Fn(Mut|Once)?<\(.*\)>>::call(_mut|_once)?$', 'Fn::call on a closure / fn item held in a variable')
    def _fn_call(fr, name, args, ops):
        f = args[0]
        tup = args[1] if len(args) > 1 else UNIT
        actual = list(tup) if type(tup) is L else []
        return I.call_closure(fr, f, actual)

    @reg(r'^<(std::ops::|core::ops::|std::iter::|core::iter::|std::slice::|core::slice::)?(Range|RangeInclusive|StepBy|Rev|Chain|Enumerate|Skip|Take|Zip|Copied|Map|Iter|ChunksExact|Chunks|Windows)<.*> as Clone>::clone$',
         'Clone::clone of an iterator (independent copy of its position)')
    def _clone_iter(fr, name, args, ops):
        v = lib.deref(args[0])
        return I.copy_val(v) if type(v) is L else v

    @reg(r'^<(u8|u16|u32|u64|usize|bool|char|\(.*\)|\[.*\]|&.*) as Clone>::clone$', 'Clone::clone of a std value (copy)')
    def _clone_any(fr, name, args, ops):
        v = lib.deref(args[0])
        return I.copy_val(v) if type(v) is L else v
