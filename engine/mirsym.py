"""mirsym: symbolic executor for rustc MIR (see DESIGN.md 2.3).

Concrete guards are followed; a symbolic switchInt runs every feasible successor up
to the immediate post-dominator and merges the written cells with ite.  Every
assert / panic / unreachable met under a path condition becomes an obligation.
"""
import re
import os
import sys
from . import terms as T
from .terms import Term
from . import mirparse as P
from .mirparse import Ty, parse_type


class Unsupported(Exception):
    """construct outside the executor's reach -> INCONCLUSIVE, never 'held'"""


class ConcretePanic(Exception):
    """a panic reached with an empty path condition"""

    def __init__(self, msg, where):
        Exception.__init__(self, '%s at %s' % (msg, where))
        self.msg = msg
        self.where = where


class L(list):
    """mutable aggregate / heap cell with a birth stamp (for journalling) and a tag"""
    __slots__ = ('birth', 'tag', 'ew')      # ew: bit width of the scalar elements of an array / buffer when known


class Ptr:
    """reference to the cell c[k]"""
    __slots__ = ('c', 'k')

    def __init__(self, c, k):
        self.c = c
        self.k = k

    def __repr__(self):
        return 'Ptr(%s,%r)' % (type(self.c).__name__, self.k)


class SliceRef:
    """reference to c[start:start+len]; is_str marks &str (elements are code points)"""
    __slots__ = ('c', 'start', 'len', 'is_str')

    def __init__(self, c, start, length, is_str=False):
        self.c = c
        self.start = start
        self.len = length
        self.is_str = is_str

    def items(self):
        return self.c[self.start:self.start + self.len]

    def __repr__(self):
        return 'SliceRef(%d+%d)' % (self.start, self.len)


class OpaqueSlice:
    """&str / &[u8] whose content is not modelled and whose length is a term: only len / is_empty / as_bytes and being
    handed to a stub are supported; any other use is a type error in the executor (-> inconclusive, never a verdict)"""
    __slots__ = ('ident', 'length', 'is_str')

    def __init__(self, ident, length, is_str=True):
        self.ident = ident
        self.length = length
        self.is_str = is_str

    def __repr__(self):
        return 'OpaqueSlice(%s)' % self.ident


class Poison:
    """value that could not be merged; any use is Unsupported"""
    __slots__ = ('why',)

    def __init__(self, why):
        self.why = why


class FnRef:
    """function item / pointer"""
    __slots__ = ('name',)

    def __init__(self, name):
        self.name = name

    def __repr__(self):
        return 'FnRef(%s)' % self.name


class Closure:
    __slots__ = ('name', 'captures')

    def __init__(self, name, captures):
        self.name = name
        self.captures = captures


class Guarded:
    """string piece present iff cond"""
    __slots__ = ('cond', 'items')

    def __init__(self, cond, items):
        self.cond = cond
        self.items = items

    def __repr__(self):
        return 'Guarded(%r,%d items)' % (self.cond, len(self.items))


class NumPiece:
    """Display of a number whose value is a term: kind in usize/f64/f64.2/hex02"""
    __slots__ = ('kind', 'val', 'w')

    def __init__(self, kind, val, w=64):
        self.kind = kind
        self.val = val
        self.w = w

    def __repr__(self):
        return 'Num(%s,%r)' % (self.kind, self.val)


UNIT = ()


class Float:
    """f64 value: concrete Python float or FP term (engine.fpterms)"""
    __slots__ = ('v',)

    def __init__(self, v):
        self.v = v

    def __repr__(self):
        return 'F(%r)' % (self.v,)


# ---------------------------------------------------------------- program

BUILTIN_ENUMS = {
    'Option': ['None', 'Some'],
    'Result': ['Ok', 'Err'],
    'ControlFlow': ['Continue', 'Break'],
    'Cow': ['Borrowed', 'Owned'],
    'AssertKind': ['Eq', 'Ne', 'Match'],
}
ORDERING = {'Less': (1 << 64) - 1, 'Equal': 0, 'Greater': 1}


class Program:
    def __init__(self, mir_text, src_root):
        self.src_root = src_root
        self.funcs, self.allocs = P.parse_mir(mir_text)
        self.by_name = {}
        self.by_last = {}
        self.consts = {}
        self.n_lines = mir_text.count('\n')
        self._src_cache = {}
        self.structs = {}     # name -> [field names]
        self.struct_tys = {}  # name -> [field type strings]
        self.enums = {}       # name -> [(variant, discr value, n_fields)]
        self.clike = set()
        self._parse_adts()
        for f in self.funcs:
            if f.is_const_item:
                self.consts[f.name] = f
                if f.impl_span:
                    self._classify_impl(f)
                continue
            self._classify_impl(f)
            self.by_name.setdefault(f.name, f)
            last = re.sub(r'::\{closure#\d+\}$', '', f.name).split('::')[-1] if '{closure' not in f.name else f.name
            self.by_last.setdefault(last, []).append(f)
        self._explicit_discriminants()
        self._resolve_cache = {}
        self._const_cache = {}

    # -- source helpers
    def _src(self, rel):
        t = self._src_cache.get(rel)
        if t is None:
            with open(os.path.join(self.src_root, rel), encoding='utf-8') as fh:
                t = fh.read().split('\n')
            self._src_cache[rel] = t
        return t

    def _classify_impl(self, f):
        """fill f.self_ty / f.trait from the impl header text or the derive span"""
        if not f.impl_span:
            return
        rel, l1, c1, l2, c2 = f.impl_span
        try:
            lines = self._src(rel)
        except OSError:
            return
        if l1 == l2:
            text = lines[l1 - 1][c1 - 1:c2 - 1]
        else:
            text = ' '.join([lines[l1 - 1][c1 - 1:]] + lines[l1:l2 - 1] + [lines[l2 - 1][:c2 - 1]])
        text = text.strip()
        m = re.match(r'^impl(?:<[^>]*>)?\s+(?:(.+?)\s+for\s+)?(.+?)$', text)
        if m:
            f.trait = m.group(1).strip() if m.group(1) else None
            f.self_ty = m.group(2).strip()
        else:
            # derive: the span is the trait name; Self is the first parameter's base type
            f.trait = text
            if f.params:
                ty = f.locals[f.params[0]]
                while ty.kind == 'ref':
                    ty = ty.args[0]
                f.self_ty = ty.text

    def _parse_adts(self):
        for root, _, files in os.walk(self.src_root):
            if os.sep + 'tests' in root:
                continue
            for fn in files:
                if fn.endswith('.rs'):
                    self._parse_adts_file(os.path.join(root, fn))

    def _parse_adts_file(self, path):
        with open(path, encoding='utf-8') as fh:
            text = fh.read()
        # strip comments
        text = re.sub(r'//[^\n]*', '', text)
        text = re.sub(r'/\*.*?\*/', '', text, flags=re.S)
        for m in re.finditer(r'((?:#\[[^\]]*\]\s*)*)(?:pub(?:\([a-z]+\))?\s+)?(struct|enum)\s+(\w+)\s*(?:<[^>{(]*>)?\s*([({;])', text):
            attrs, kind, name, opener = m.groups()
            if re.search(r'cfg\(\s*feature\s*=\s*"wasm-bindgen"\s*\)', attrs) or \
                    re.search(r'cfg\(\s*all\(target_arch = "wasm32"', attrs):
                continue
            if opener == ';':
                self.structs[name] = []
                self.struct_tys[name] = []
                continue
            start = m.end() - 1
            end = P._match_paren(text, start)
            body = text[start + 1:end]
            if kind == 'struct':
                names, tys = [], []
                if opener == '(':
                    for i, part in enumerate(p for p in P.split_top(body) if p):
                        part = re.sub(r'^(?:#\[[^\]]*\]\s*)*(?:pub(?:\([a-z]+\))?\s+)?', '', part.strip())
                        names.append(str(i))
                        tys.append(part)
                else:
                    for part in P.split_top(body):
                        part = re.sub(r'^(?:#\[[^\]]*\]\s*)*(?:pub(?:\([a-z]+\))?\s+)?', '', part.strip())
                        if not part:
                            continue
                        k, v = part.split(':', 1)
                        names.append(k.strip())
                        tys.append(v.strip())
                self.structs[name] = names
                self.struct_tys[name] = tys
            else:
                variants = []
                nxt = 0
                body = body.replace(' << ', ' SHL ').replace(' >> ', ' SHR ')
                for part in P.split_top(body):
                    part = re.sub(r'^(?:#\[[^\]]*\]\s*)*', '', part.strip())
                    if not part:
                        continue
                    mm = re.match(r'^(\w+)\s*(\(.*\)|\{.*\})?\s*(?:=\s*(.*))?$', part, flags=re.S)
                    if mm is None:
                        raise Unsupported('cannot parse enum variant %r of %s' % (part, name))
                    vname = mm.group(1)
                    nf = 0
                    if mm.group(2):
                        nf = len([p for p in P.split_top(mm.group(2)[1:-1]) if p])
                    if mm.group(3):
                        try:
                            nxt = int(eval(mm.group(3).replace('SHL', '<<').replace('SHR', '>>'), {'__builtins__': {}}))
                        except Exception:
                            pass
                    variants.append((vname, nxt, nf))
                    nxt += 1
                self.enums[name] = variants
                if all(nf == 0 for _, _, nf in variants):
                    self.clike.add(name)

    def _explicit_discriminants(self):
        """`const path::Enum::Variant::{constant#0}: isize = const N_isize` lines override source parsing"""
        for name, f in self.consts.items():
            m = re.match(r'^(?:.*::)?(\w+)::(\w+)::\{constant#0\}$', name)
            if not m or m.group(1) not in self.enums:
                continue
            try:
                st = f.blocks[0].stmts[-1]
                val = None
                if st[2][0] == 'use' and st[2][1].mode == 'const' and st[2][1].const.kind == 'int':
                    val = st[2][1].const.val
            except Exception:
                val = None
            vs = self.enums[m.group(1)]
            if val is None:
                continue
            if val >= 1 << 63:
                val -= 1 << 64
            # re-number following implicit variants
            out = []
            nxt = None
            for (vn, dv, nf) in vs:
                if vn == m.group(2):
                    dv = val
                out.append((vn, dv, nf))
            self.enums[m.group(1)] = out

    def variant(self, enum, vname):
        """-> (index, discriminant value, n_fields)"""
        if enum in BUILTIN_ENUMS:
            i = BUILTIN_ENUMS[enum].index(vname)
            return i, i, None
        vs = self.enums.get(enum)
        if vs is None:
            raise Unsupported('unknown enum %s' % enum)
        for i, (vn, dv, nf) in enumerate(vs):
            if vn == vname:
                return i, dv, nf
        raise Unsupported('unknown variant %s::%s' % (enum, vname))

    # -- function resolution
    def resolve(self, name, arg_tys=None):
        """callee text -> Function or None (library)"""
        key = name
        if key in self._resolve_cache:
            return self._resolve_cache[key]
        r = self._resolve(name)
        self._resolve_cache[key] = r
        return r

    def _resolve(self, name):
        f = self.by_name.get(name)
        if f is not None:
            return f
        # closures: `qr::<impl ...>::new::{closure#0}` are looked up by their closure type elsewhere
        # <T as Trait<..>>::method::<generics>
        m = re.match(r'^<(.*) as ([^>]*?(?:<.*>)?)>::(\w+)(?:::<.*>)?$', name)
        if m:
            self_ty, trait, meth = m.group(1), m.group(2), m.group(3)
            base_self = strip_generics(short(self_ty))
            base_trait = strip_generics(short(trait))
            cands = [f for f in self.by_last.get(meth, []) if f.self_ty is not None]
            exact = [f for f in cands if norm_ty(f.self_ty) == norm_ty(short_path_ty(self_ty))
                     and f.trait is not None and norm_trait(f.trait) == norm_trait(short_path_ty(trait))]
            if len(exact) == 1:
                return exact[0]
            loose = [f for f in cands if strip_generics(short(f.self_ty)) == base_self and f.trait is not None
                     and strip_generics(short(f.trait)) == base_trait]
            if len(loose) == 1:
                return loose[0]
            if len(loose) > 1:
                ex2 = [f for f in loose if norm_trait(f.trait) == norm_trait(short_path_ty(trait))]
                if len(ex2) == 1:
                    return ex2[0]
                raise Unsupported('ambiguous callee %s: %s' % (name, [f.name for f in loose]))
            return None
        # Type::method or Type::<..>::method::<..> or plain function
        plain = re.sub(r'::<.*?>(?=::|$)', '', name) if '<' in name and not name.startswith('<') else name
        parts = plain.split('::')
        meth = parts[-1]
        cands = self.by_last.get(meth, [])
        if len(parts) == 1:
            free = [f for f in cands if f.self_ty is None and '{closure' not in f.name]
            if len(free) == 1:
                return free[0]
            if len(free) > 1:
                ex = [f for f in free if f.name == name]
                if len(ex) == 1:
                    return ex[0]
                raise Unsupported('ambiguous free fn %s' % name)
            return None
        owner = parts[-2]
        inh = [f for f in cands if f.self_ty is not None and f.trait is None and strip_generics(short(f.self_ty)) == owner]
        if len(inh) == 1:
            return inh[0]
        if len(inh) > 1:
            raise Unsupported('ambiguous inherent fn %s' % name)
        # module-qualified free function  placement::create_matrix
        free = [f for f in cands if f.self_ty is None and (f.name == name or f.name.endswith('::' + name)
                                                            or name.endswith('::' + f.name))]
        if len(free) == 1:
            return free[0]
        # trait method called through the type (e.g. SvgBuilder::default -> impl Default for SvgBuilder)
        tr = [f for f in cands if f.self_ty is not None and strip_generics(short(f.self_ty)) == owner]
        if len(tr) == 1:
            return tr[0]
        return None

    def closure_fn(self, clos_ty_text):
        """{closure@src/x.rs:l:c: l:c} -> Function"""
        key = ('clos', clos_ty_text)
        if key in self._resolve_cache:
            return self._resolve_cache[key]
        for f in self.funcs:
            if '{closure#' in f.name and f.params:
                ty = f.locals[f.params[0]]
                while ty.kind == 'ref':
                    ty = ty.args[0]
                if ty.text == clos_ty_text:
                    self._resolve_cache[key] = f
                    return f
        raise Unsupported('closure body not found: %s' % clos_ty_text)

    def find_const(self, name):
        f = self.consts.get(name)
        if f is not None:
            return f
        key = ('const', name)
        if key in self._resolve_cache:
            return self._resolve_cache[key]

        def segs(n, c=None):
            out = []
            for x in n.split('::'):
                if x.startswith('<impl'):
                    if c is not None and c.self_ty:
                        out.append(strip_generics(short(c.self_ty)))
                    continue
                out.append(x)
            return out
        mq = re.match(r'^<(.*?) as (.*?)>::(.*)$', name)
        if mq:
            want = [strip_generics(short(mq.group(1)))] + mq.group(3).split('::')
        else:
            want = segs(name)
        best, bestn, tie = None, 0, False
        for n, c in self.consts.items():
            cs = segs(n, c)
            k = 0
            while k < len(cs) and k < len(want) and cs[-1 - k] == want[-1 - k]:
                k += 1
            if k == 0 or (k < len(cs) and k < len(want)):
                continue       # neither is a suffix of the other
            if k > bestn:
                best, bestn, tie = c, k, False
            elif k == bestn and c is not best:
                tie = True
        if tie:
            raise Unsupported('ambiguous const %s' % name)
        self._resolve_cache[key] = best
        return best


def short(t):
    t = t.strip()
    while t.startswith('&'):
        t = t[1:].lstrip()
        if t.startswith('mut '):
            t = t[4:]
    return t


def strip_generics(t):
    t = re.sub(r'<.*>$', '', t.strip())
    return t.split('::')[-1]


def short_path_ty(t):
    """std::ops::Range<usize> -> Range<usize> (every path shortened)"""
    return re.sub(r'(?:\w+::)+(\w+)', r'\1', t)


def norm_ty(t):
    return re.sub(r'\s+', '', short_path_ty(t)).replace("'_", '').replace("<>", '')


def norm_trait(t):
    return norm_ty(t)


# ---------------------------------------------------------------- interpreter

class Frame:
    __slots__ = ('fn', 'locals', 'subst', 'depth')


class Obligation:
    __slots__ = ('pc', 'cond', 'kind', 'where', 'msg')

    def __init__(self, pc, cond, kind, where, msg):
        self.pc = pc          # tuple of width-1 terms (conjunction)
        self.cond = cond      # width-1 term / int that must hold
        self.kind = kind
        self.where = where
        self.msg = msg


class Interp:
    def __init__(self, prog, stubs=None, max_steps=None):
        self.prog = prog
        self.stubs = stubs or {}
        self.alloc = 0
        self.journal = None        # list of (container, key, old, ty) while inside a symbolic arm
        self.arm_birth = -1        # containers born after this are arm-local
        self.pc = []               # current path condition (list of width-1 Terms)
        self.facts = []            # pc => cond facts established by passed asserts
        self.obligations = []
        self.depth = 0
        self.steps = 0
        self.fn_counts = {}        # function name -> executed statements
        self.lib_used = {}
        self.stub_log = []
        self.havoc_reads = []
        self.branches = 0
        self.arms = 0
        self.drop_hooks = {}      # tag -> callable(interp, value): destructor models of environment objects
        self.max_steps = max_steps
        from . import lib
        self.lib = lib.Library(self)

    # -- allocation
    def mk(self, items=(), tag=None):
        l = L(items)
        self.alloc += 1
        l.birth = self.alloc
        l.tag = tag
        l.ew = None
        return l

    def write(self, c, k, v, ty=None):
        j = self.journal
        if j is not None and c.birth <= self.arm_birth:
            j.append((c, k, c[k], ty))
        c[k] = v

    def structural(self, c):
        """call before changing len(c) of a journalled container"""
        j = self.journal
        if j is not None and c.birth <= self.arm_birth:
            j.append((c, None, list(c), None))

    def appending(self, c):
        """call before appending to a journalled container (string buffers): undo = truncate"""
        j = self.journal
        if j is not None and c.birth <= self.arm_birth:
            j.append((c, APPEND, len(c), None))

    def copy_val(self, v):
        if type(v) is L:
            if v.tag == 'symenum':
                return self.mk([v[0], {k: self.copy_val(f) for k, f in v[1].items()}], 'symenum')
            n = L(self.copy_val(x) if type(x) is L else x for x in v)
            self.alloc += 1
            n.birth = self.alloc
            n.tag = v.tag
            n.ew = getattr(v, 'ew', None)
            return n
        return v

    # -- types
    def place_ty(self, fr, place):
        ty = fr.fn.locals.get(place.local)
        for p in place.proj:
            k = p[0]
            if ty is None:
                return None
            if k == 'deref':
                if ty.kind in ('ref', 'ptr') or (ty.kind == 'adt' and ty.name == 'Box'):
                    ty = ty.args[0]
                else:
                    return None
            elif k == 'field':
                ty = p[2]
            elif k == 'downcast':
                pass
            elif k in ('index', 'cindex'):
                ty = ty.args[0] if ty.kind in ('array', 'slice') else None
            else:
                return None
        return ty

    def operand_ty(self, fr, op):
        if op.mode == 'const':
            c = op.const
            if c.ty is not None:
                return c.ty
            if c.kind == 'named':
                f = self.prog.find_const(c.val)
                if f is not None:
                    return f.ret
                if c.val.endswith('::ALIGN') or c.val.endswith('::SIZE'):
                    return USIZE
            return None
        return self.place_ty(fr, op.place)

    # -- places
    def loc(self, fr, place):
        """-> (container, key) ; key may be ('slice', SliceRef) / ('sym', list, start, len, idx)"""
        c = fr.locals
        k = place.local
        variant = None
        for p in place.proj:
            kind = p[0]
            if kind == 'deref':
                v = c[k]
                if type(v) is Ptr:
                    c, k = v.c, v.k
                elif type(v) is SliceRef:
                    c, k = None, v
                elif type(v) is L and v.tag == 'Box':
                    c, k = v, 0
                else:
                    raise Unsupported('deref of %r in %s (%s)' % (v, fr.fn.name, place))
            elif kind == 'field':
                v = c[k] if c is not None else None
                if type(v) is not L:
                    raise Unsupported('field of non-aggregate %r (%s in %s)' % (v, place, fr.fn.name))
                if v.tag == 'enum':
                    c, k = v, p[1] + 1
                elif v.tag == 'symenum':
                    if variant is None:
                        raise Unsupported('field of a symbolic enum without downcast')
                    dv = self.variant_discr(fr, place, variant)
                    fields = v[1].get(dv)
                    if fields is None:
                        raise Unsupported('symbolic enum has no variant %s' % variant)
                    c, k = fields, p[1]
                else:
                    c, k = v, p[1]
            elif kind == 'downcast':
                variant = p[1]
            elif kind == 'index':
                idx = fr.locals[p[1]]
                if c is None:
                    sl = k
                    if type(idx) is int:
                        if idx >= sl.len:
                            raise Unsupported('index past slice end despite bounds assert')
                        c, k = sl.c, sl.start + idx
                    else:
                        c, k = None, ('sym', sl.c, sl.start, sl.len, idx)
                else:
                    v = c[k]
                    if type(v) is not L:
                        raise Unsupported('index into %r' % (v,))
                    if type(idx) is int:
                        c, k = v, idx
                    else:
                        c, k = None, ('sym', v, 0, len(v), idx)
            elif kind == 'cindex':
                if c is None:
                    sl = k
                    i = sl.len - p[1] if p[2] else p[1]
                    c, k = sl.c, sl.start + i
                else:
                    v = c[k]
                    c, k = v, (len(v) - p[1] if p[2] else p[1])
            else:
                raise Unsupported('projection %r' % (p,))
        return c, k

    def variant_discr(self, fr, place, variant):
        """discriminant value of `variant` for the enum type the place's downcast applies to"""
        ty = fr.fn.locals.get(place.local)
        for p in place.proj:
            if p[0] == 'downcast' and p[1] == variant:
                break
            if p[0] == 'deref':
                ty = ty.args[0]
            elif p[0] == 'field':
                ty = p[2]
            elif p[0] in ('index', 'cindex'):
                ty = ty.args[0]
        while ty is not None and ty.kind == 'ref':
            ty = ty.args[0]
        if ty is None or ty.kind != 'adt':
            raise Unsupported('downcast on unknown type')
        idx, dv, nf = self.prog.variant(ty.name, variant)
        return dv

    def load(self, fr, place, ty=None):
        if not place.proj:
            return fr.locals[place.local]
        c, k = self.loc(fr, place)
        if c is None:
            if type(k) is SliceRef:
                return k
            # symbolic index read
            _, lst, start, n, idx = k
            elems = lst[start:start + n]
            ety = ty or self.place_ty(fr, place)
            if ety is not None and ety.kind == 'adt' and all(type(e) is L and len(e) == 1 for e in elems):
                # array of single-field structs (Module): select the field
                inner = [e[0] for e in elems]
                w = 8
                return self.mk([T.select_terms(inner, w, idx, 64)])
            w = self.scalar_width(ety)
            if w is None:
                raise Unsupported('symbolic index into non-scalar array (%s)' % (ety,))
            return T.select_terms(elems, w, idx, 64)
        return c[k]

    def store(self, fr, place, v, ty=None):
        if not place.proj:
            c, k = fr.locals, place.local
        else:
            c, k = self.loc(fr, place)
            if c is None:
                raise Unsupported('store through symbolic index / slice place: %s in %s' % (place, fr.fn.name))
        j = self.journal
        if j is not None and c.birth <= self.arm_birth:
            if ty is None:
                ty = self.place_ty(fr, place)
            j.append((c, k, c[k], ty))
        c[k] = v

    def scalar_width(self, ty):
        if ty is None:
            return None
        if ty.kind in ('int', 'bool', 'char'):
            return ty.bits
        if ty.kind == 'adt' and ty.name in self.prog.clike:
            return 8
        return None

    # -- operands
    def operand(self, fr, op):
        m = op.mode
        if m == 'const':
            return self.const_val(op.const)
        v = self.load(fr, op.place)
        if m == 'copy' and type(v) is L:
            return self.copy_val(v)
        if type(v) is Poison:
            raise Unsupported('use of an unmergeable value (%s) in %s' % (v.why, fr.fn.name))
        return v

    def const_val(self, c):
        k = c.kind
        if k in ('int', 'bool', 'char'):
            return c.val
        if k == 'float':
            return Float(c.val)
        if k == 'unit':
            return UNIT
        if k == 'str':
            s = c.val.decode('utf-8')
            l = self.mk([ord(ch) for ch in s], 'StrBuf')
            return SliceRef(l, 0, len(l), True)
        if k == 'bytes':
            l = self.mk(list(c.val), 'bytes')
            return SliceRef(l, 0, len(l))
        if k == 'fn':
            return FnRef(c.val)
        if k == 'closure':
            return self.mk([], 'closure:' + c.val)
        if k == 'named':
            return self.named_const(c.val)
        raise Unsupported('const %r' % (c,))

    def decode_alloc(self, data, relocs, off, ty):
        """value of type `ty` stored at byte offset `off` of a static allocation (little endian, declared field order with
        natural alignment - checked against the native build by the translator validation of every check)"""
        k = ty.kind
        if k in ('int', 'bool', 'char'):
            nb = {'bool': 1, 'char': 4}.get(k, (ty.bits or 8) // 8)
            return int.from_bytes(data[off:off + nb], 'little'), nb, nb
        if k == 'array':
            vals = []
            o = off
            al = 1
            for _ in range(ty.n):
                v, sz, al = self.decode_alloc(data, relocs, o, ty.args[0])
                vals.append(v)
                o += sz
            return self.mk(vals), o - off, al
        if k == 'tuple':
            vals = []
            o = off
            al = 1
            for t in ty.args:
                _, sz_, a_ = self.decode_alloc(data, relocs, 0, t) if False else (None, None, self.align_of(t))
                o = (o + a_ - 1) // a_ * a_
                v, sz, _a = self.decode_alloc(data, relocs, o, t)
                vals.append(v)
                o += sz
                al = max(al, a_)
            o = (o + al - 1) // al * al
            return self.mk(vals), o - off, al
        if k == 'adt' and ty.name in self.prog.clike:
            return data[off], 1, 1
        raise Unsupported('static allocation of type %s' % ty)

    def align_of(self, ty):
        k = ty.kind
        if k in ('int',):
            return min(8, (ty.bits or 8) // 8)
        if k == 'bool':
            return 1
        if k == 'char':
            return 4
        if k == 'array':
            return self.align_of(ty.args[0])
        if k == 'tuple':
            return max([self.align_of(t) for t in ty.args] + [1])
        if k == 'adt' and ty.name in self.prog.clike:
            return 1
        raise Unsupported('alignment of %s' % ty)

    def named_const(self, name):
        cache = self.prog._const_cache
        m_ = re.match(r'^\{(alloc\d+): &(.*)\}$', name)
        if m_ and m_.group(1) in self.prog.allocs:
            key = 'alloc:' + name
            if key not in cache:
                data, relocs = self.prog.allocs[m_.group(1)]
                if relocs:
                    raise Unsupported('static allocation with pointers (%s)' % name)
                ty = P.parse_type(m_.group(2))
                v, sz, al = self.decode_alloc(data, relocs, 0, ty)
                cache[key] = v
            v = cache[key]            # shared, read-only: a write through it would be a write to a non-mut static
            return Ptr(self.mk([v]), 0)
        f = self.prog.find_const(name)
        if f is None:
            if name in ('RangeFull', 'std::ops::RangeFull'):
                return self.mk([], 'RangeFull')
            v = self.lib.named_const(name)
            return v
        if f.name in cache:
            return self.copy_val(cache[f.name])
        saved = (self.journal, self.arm_birth, self.pc)
        self.journal, self.pc = None, []
        try:
            v = self.call_fn(f, [])
        finally:
            self.journal, self.arm_birth, self.pc = saved
        cache[f.name] = v
        return self.copy_val(v)

    # -- calls
    def call_fn(self, f, args, subst=None):
        fr = Frame()
        fr.fn = f
        fr.subst = subst
        fr.depth = self.depth
        loc = self.mk([None] * f.nlocals, 'frame')
        fr.locals = loc
        for p, a in zip(f.params, args):
            loc[p] = a
        if f.ipdom is None:
            P.compute_ipdom(f)
        self.depth += 1
        if self.depth > 200:
            raise Unsupported('call depth')
        try:
            st = self.run(fr, 0, -1)
        finally:
            self.depth -= 1
        if st == 'dead':
            return DEAD
        return loc[0]

    def call(self, fr, name, args, arg_ops):
        stub = self.stubs.get(name)
        if stub is None and self.stubs:
            stub = self.stubs.get(re.sub(r'::<.*>$', '', name))
        if stub is not None:
            return stub(self, args)
        if fr.subst:
            for k, v in fr.subst.items():
                name = re.sub(r'\b%s\b' % re.escape(k), v, name)
        f = self.prog.resolve(name)
        if f is not None:
            subst = None
            # bind generic parameters of the callee by unifying parameter types with argument types
            for p, op in zip(f.params, arg_ops):
                pty = f.locals[p]
                if pty.kind == 'adt' and not pty.args and re.match(r'^[A-Z]\w?$', pty.name or ''):
                    aty = self.operand_ty(fr, op)
                    if aty is not None:
                        if fr.subst and aty.text in fr.subst:
                            at = fr.subst[aty.text]
                        else:
                            at = aty.text
                        subst = subst or {}
                        subst[pty.name] = at
            return self.call_fn(f, args, subst)
        return self.lib.call(fr, name, args, arg_ops)

    # -- main loop
    def where(self, fr, bb):
        return '%s bb%d' % (fr.fn.name, bb)

    def run(self, fr, bb, stop):
        """execute from block bb until `stop` is reached (before executing it) or return.
        -> 'stop' | 'return' | 'dead'"""
        blocks = fr.fn.blocks
        fname = fr.fn.name
        counts = self.fn_counts
        while True:
            if bb == stop:
                return 'stop'
            blk = blocks[bb]
            n = len(blk.stmts) + 1
            counts[fname] = counts.get(fname, 0) + n
            self.steps += n
            for st in blk.stmts:
                k = st[0]
                if k == 'assign':
                    self.assign(fr, st[1], st[2])
                elif k == 'setdiscr':
                    raise Unsupported('SetDiscriminant')
                else:
                    raise Unsupported('statement: %s' % (st[1],))
            t = blk.term
            k = t[0]
            if k == 'goto':
                bb = t[1]
            elif k == 'call':
                dest, fexpr, arg_ops, ret = t[1], t[2], t[3], t[4]
                args = [self.operand(fr, a) for a in arg_ops]
                if fexpr[0] == 'direct':
                    v = self.call(fr, fexpr[1], args, arg_ops)
                else:
                    fv = self.operand(fr, fexpr[1])
                    v = self.call_value(fr, fv, args, arg_ops)
                if v is DEAD or ret is None:
                    if v is not DEAD:
                        raise Unsupported('diverging call returned: %s' % (fexpr,))
                    return 'dead'
                self.store(fr, dest, v)
                bb = ret
            elif k == 'switch':
                d = self.operand(fr, t[1])
                if type(d) is int:
                    nb = t[3]
                    for val, tgt in t[2]:
                        if val == d:
                            nb = tgt
                            break
                    if nb is None:
                        raise Unsupported('switch without otherwise')
                    bb = nb
                else:
                    r = self.sym_switch(fr, bb, d, t)
                    if r[0] != 'goto':
                        return r[0]
                    bb = r[1]
            elif k == 'assert':
                c = self.operand(fr, t[1])
                if t[2]:
                    c = T.lnot(c)
                if type(c) is int:
                    if not c & 1:
                        if not self.pc:
                            raise ConcretePanic(t[4], self.where(fr, bb))
                        self.obligations.append(Obligation(tuple(self.pc), 0, 'assert', self.where(fr, bb), t[4]))
                        return 'dead'
                else:
                    self.obligations.append(Obligation(tuple(self.pc), c, 'assert', self.where(fr, bb), t[4]))
                    self.facts.append(T.implies(T.and_many(self.pc), c))
                bb = t[3]
            elif k == 'return':
                return 'return'
            elif k == 'drop':
                if self.drop_hooks:
                    try:
                        dv = self.load(fr, t[1])
                    except Unsupported:
                        dv = None
                    if type(dv) is L and dv.tag in self.drop_hooks:
                        self.drop_hooks[dv.tag](self, dv)
                bb = t[2]
            elif k == 'unreachable':
                if not self.pc:
                    raise ConcretePanic('unreachable', self.where(fr, bb))
                self.obligations.append(Obligation(tuple(self.pc), 0, 'unreachable', self.where(fr, bb), 'unreachable'))
                return 'dead'
            else:
                raise Unsupported('terminator %r in %s' % (t, fname))

    def panic(self, fr, msg):
        if not self.pc:
            raise ConcretePanic(msg, fr.fn.name if fr else '?')
        self.obligations.append(Obligation(tuple(self.pc), 0, 'panic', fr.fn.name if fr else '?', msg))
        return DEAD

    def call_value(self, fr, fv, args, arg_ops):
        if type(fv) is FnRef:
            return self.call(fr, fv.name, args, arg_ops)
        if type(fv) is Ptr:
            return self.call_value(fr, fv.c[fv.k], args, arg_ops)
        raise Unsupported('indirect call through %r' % (fv,))

    def call_closure(self, fr, clos, args):
        """clos: Closure value or FnRef; args: list of call arguments (already a tuple unpacked)"""
        if type(clos) is FnRef:
            return self.call(fr, clos.name, args, [None] * len(args))
        if type(clos) is Ptr:
            return self.call_closure(fr, clos.c[clos.k], args)
        if type(clos) is L and clos.tag and clos.tag.startswith('closure:'):
            f = self.prog.closure_fn(clos.tag[8:])
            # first param is the closure itself (by value / &mut / &)
            pty = f.locals[f.params[0]]
            self_arg = clos
            if pty.kind == 'ref':
                cell = self.mk([clos])
                self_arg = Ptr(cell, 0)
            return self.call_fn(f, [self_arg] + list(args))
        raise Unsupported('call of %r' % (clos,))

    # -- symbolic branching
    def sym_switch(self, fr, bb, d, t):
        self.branches += 1
        w = d.w
        arms = []
        seen = []
        for val, tgt in t[2]:
            c = T.eq(w, d, val)
            if type(c) is int:
                if c:
                    # discriminant is effectively constant
                    return ('goto', tgt)
                continue
            arms.append((c, tgt))
            seen.append(c)
        if t[3] is not None:
            oc = T.lnot(T.or_many(seen)) if seen else 1
            if type(oc) is int:
                if oc:
                    return ('goto', t[3])
            else:
                arms.append((oc, t[3]))
        if len(arms) == 1:
            return ('goto', arms[0][1])
        self.arms += len(arms)
        # group arms with the same target
        join = fr.fn.ipdom.get(bb)
        if join is None:
            raise Unsupported('no post-dominator for %s' % self.where(fr, bb))
        results = []
        outer_journal, outer_birth = self.journal, self.arm_birth
        pc_len = len(self.pc)
        any_live = False
        for cond, tgt in arms:
            self.journal = []
            self.arm_birth = self.alloc
            self.pc.append(cond)
            try:
                st = self.run(fr, tgt, join)
            finally:
                del self.pc[pc_len:]
            j = self.journal
            finals = None
            if st != 'dead':
                any_live = True
                finals = {}
                for (c, k, old, ty) in j:
                    key = (id(c), k)
                    if key not in finals:
                        finals[key] = [c, k, None, ty, old]
                for ent in finals.values():
                    c, k = ent[0], ent[1]
                    if k is APPEND:
                        ent[2] = c[ent[4]:]          # what this arm appended after the first recorded length
                    else:
                        ent[2] = list(c) if k is None else c[k]
            # undo
            for (c, k, old, ty) in reversed(j):
                if k is None:
                    c[:] = old
                elif k is APPEND:
                    del c[old:]
                else:
                    c[k] = old
            self.journal, self.arm_birth = outer_journal, outer_birth
            if st == 'dead':
                self.facts.append(T.implies(T.and_many(self.pc), T.lnot(cond)))
                continue
            results.append((cond, finals, st))
        if not any_live:
            return ('dead',)
        sts = set(r[2] for r in results)
        if len(sts) != 1:
            raise Unsupported('arms end differently at %s: %s' % (self.where(fr, bb), sts))
        # merge
        cells = {}
        for cond, finals, st in results:
            for key, ent in finals.items():
                if key not in cells:
                    cells[key] = ent
        for key, ent in cells.items():
            c, k, _, ty = ent[0], ent[1], ent[2], ent[3]
            if k is APPEND:
                tails = []
                for cond, finals, st in results:
                    e = finals.get(key)
                    tails.append(e[2] if e is not None else [])
                merged = tails[-1]
                for i in range(len(results) - 2, -1, -1):
                    merged = self.merge_tail(results[i][0], tails[i], merged)
                self.appending(c)
                c.extend(merged)
                continue
            if k is None:
                orig = list(c)
            else:
                orig = c[k]
            vals = []
            for cond, finals, st in results:
                e = finals.get(key)
                vals.append(e[2] if e is not None else orig)
            if ty is None and c.tag in ITER_TAGS:
                ty = USIZE       # positions / counters of library iterator models
            if ty is None and k is not None and getattr(c, 'ew', None):
                ty = Ty('int', bits=c.ew, text='u%d' % c.ew)      # element of an array / buffer whose element width is recorded
            if ty is None and k is not None and type(k) is int and (type(orig) is int or isinstance(orig, Term)):
                sib = next((x for x in c if isinstance(x, Term)), None)
                if sib is not None and c.tag in (None, 'buf', 'bytes'):
                    ty = Ty('int', bits=sib.w, text='u%d' % sib.w)   # homogeneous scalar container: width of a sibling element
            merged = vals[-1]
            for i in range(len(results) - 2, -1, -1):
                merged = self.merge(results[i][0], vals[i], merged, ty, c if k is None else None)
            if k is None:
                self.structural(c)
                c[:] = merged
            else:
                self.write(c, k, merged, ty)
        st = sts.pop()
        if st == 'return':
            return ('return',)
        return ('goto', join)

    def merge(self, cond, a, b, ty, whole=None):
        if a is b:
            return a
        ta, tb = type(a), type(b)
        if (ta is int or ta is Term) and (tb is int or tb is Term):
            if ta is int and tb is int and a == b:
                return a
            w = a.w if ta is Term else (b.w if tb is Term else self.scalar_width(ty))
            if w is None:
                raise Unsupported('merge of two concrete scalars of unknown width (%r, %r, %s)' % (a, b, ty))
            return T.ite(w, cond, a, b)
        if whole is not None or (ta is list and tb is list):
            # structural merge of a container whose length changed (string buffers)
            if whole is not None and whole.tag == 'StrBuf':
                return self.merge_strbuf(cond, a, b)
            if whole is not None and whole.tag == 'buf':
                return self.merge_seq(cond, a, b)
            if len(a) != len(b):
                raise Unsupported('merge of containers of different length')
            return [self.merge(cond, x, y, None) for x, y in zip(a, b)]
        if ta is L and tb is L and a.tag in ('enum', 'symenum') and b.tag in ('enum', 'symenum') and \
                (a.tag == 'symenum' or b.tag == 'symenum' or len(a) != len(b)
                 or (type(a[0]) is int and type(b[0]) is int and a[0] != b[0])):
            return self.merge_enum(cond, a, b, ty)
        if ta is L and tb is L:
            if a.tag != b.tag:
                raise Unsupported('merge of different aggregates %s/%s' % (a.tag, b.tag))
            if a.tag == 'StrBuf':
                return self.mk(self.merge_strbuf(cond, list(a), list(b)), 'StrBuf')
            if a.tag == 'Vec':
                cap = a[1] if (type(a[1]) is int and type(b[1]) is int and a[1] >= b[1]) else b[1]
                return self.mk([self.merge(cond, a[0], b[0], None), cap], 'Vec')      # the capacity is not observable
            if a.tag == 'buf' and (len(a) != len(b) or any(type(x) is Guarded for x in list(a) + list(b))):
                return self.mk(self.merge_seq(cond, list(a), list(b)), 'buf')
            if len(a) != len(b):
                raise Unsupported('merge of aggregates of different length (%s)' % a.tag)
            etys = self.elem_tys(ty, a)
            ew = getattr(a, 'ew', None) or getattr(b, 'ew', None)
            if ew is None and a.tag in (None, 'buf', 'bytes'):
                sib = next((x for x in list(a) + list(b) if isinstance(x, Term)), None)
                if sib is not None and all(type(x) is int or isinstance(x, Term) for x in a):
                    ew = sib.w
            if ew and all(t is None for t in etys):
                etys = [Ty('int', bits=ew, text='u%d' % ew)] * len(a)
            out = self.mk([self.merge(cond, x, y, et) for x, y, et in zip(a, b, etys)], a.tag)
            out.ew = ew
            return out
        if ta is Float and tb is Float:
            from . import fpterms
            return Float(fpterms.ite(cond, a.v, b.v))
        if ta is Ptr and tb is Ptr and a.c is b.c and a.k == b.k:
            return a
        if ta is SliceRef and tb is SliceRef and a.c is b.c and a.start == b.start and a.len == b.len:
            return a
        if ta is FnRef and tb is FnRef and a.name == b.name:
            return a
        if a is UNIT and b is UNIT:
            return a
        if a is None:
            return b
        if b is None:
            return a
        if ta in (Ptr, SliceRef, FnRef, Poison) or tb in (Ptr, SliceRef, FnRef, Poison):
            # two different references (typically dead temporaries of a loop body): representable only as poison;
            # reading it later is an unsupported construct, never silently wrong
            return Poison('merge of %r and %r' % (a, b))
        raise Unsupported('merge of %r and %r' % (a, b))

    def enum_variants(self, e):
        """enum / symenum -> (discriminant value or term, {discr value: L(fields)})"""
        if e.tag == 'symenum':
            return e[0], e[1]
        if type(e[0]) is not int:
            # shared-payload form [d, fields..] with a symbolic discriminant: every feasible discriminant value sees the same
            # fields (a variant without fields, like None, simply never reads them)
            hi = T.umax(e[0], 64)
            if hi > 8:
                raise Unsupported('merge of an enum with an unbounded symbolic discriminant into a variant map')
            return e[0], {k: self.mk(list(e[1:])) for k in range(hi + 1)}
        return e[0], {e[0]: self.mk(list(e[1:]))}

    def merge_enum(self, cond, a, b, ty):
        da, va = self.enum_variants(a)
        db, vb = self.enum_variants(b)
        disc = T.ite(64, cond, da, db)
        vm = {}
        ftys = {}
        if ty is not None and ty.kind == 'adt':
            if ty.name == 'Result' and len(ty.args) == 2:
                ftys = {0: [ty.args[0]], 1: [ty.args[1]]}
            elif ty.name == 'Option' and ty.args:
                ftys = {1: [ty.args[0]]}
        for k in set(va) | set(vb):
            if k in va and k in vb:
                fa, fb = va[k], vb[k]
                if len(fa) != len(fb):
                    if len(fa) == 0 or len(fb) == 0:
                        # one side knows the variant has no fields (e.g. None); the other is the shared-payload form
                        vm[k] = fa if len(fa) == 0 else fb
                        continue
                    raise Unsupported('enum variant payload shapes differ')
                ft = ftys.get(k, [None] * len(fa))
                vm[k] = self.mk([self.merge(cond, x, y, t) for x, y, t in zip(fa, fb, ft + [None] * len(fa))])
            else:
                vm[k] = va.get(k) or vb.get(k)
        return self.mk([disc, vm], 'symenum')

    def merge_seq(self, cond, a, b):
        """merge of two item sequences (vector buffers): element-wise if the shapes agree, otherwise common prefix
        followed by pieces guarded by the condition"""
        if len(a) == len(b) and not any(type(x) is Guarded for x in a + b):
            return [self.merge(cond, x, y, None) for x, y in zip(a, b)]
        n = 0
        while n < min(len(a), len(b)) and (a[n] is b[n] or (type(a[n]) is int and type(b[n]) is int and a[n] == b[n])):
            n += 1
        out = list(a[:n])
        if a[n:]:
            out.append(Guarded(cond, list(a[n:])))
        if b[n:]:
            out.append(Guarded(T.lnot(cond), list(b[n:])))
        return out

    def merge_tail(self, cond, a, b):
        """merge of what two arms appended to the same string buffer"""
        if len(a) == len(b) and all(type(x) in (int, Term) and type(y) in (int, Term) for x, y in zip(a, b)):
            return [x if (x is y or (type(x) is int and type(y) is int and x == y)) else T.ite(32, cond, x, y) for x, y in zip(a, b)]
        n = 0
        m = min(len(a), len(b))
        while n < m and (a[n] is b[n] or (type(a[n]) is int and type(b[n]) is int and a[n] == b[n])):
            n += 1
        out = list(a[:n])
        if a[n:]:
            out.append(Guarded(cond, a[n:]))
        if b[n:]:
            out.append(Guarded(T.lnot(cond), b[n:]))
        return out

    def merge_strbuf(self, cond, a, b):
        n = 0
        m = min(len(a), len(b))
        while n < m and (a[n] is b[n] or (type(a[n]) is int and type(b[n]) is int and a[n] == b[n])):
            n += 1
        ra, rb = a[n:], b[n:]
        if len(ra) == len(rb) and all(type(x) in (int, Term) and type(y) in (int, Term) for x, y in zip(ra, rb)):
            return a[:n] + [T.ite(32, cond, x, y) for x, y in zip(ra, rb)]
        out = a[:n]
        if ra:
            out.append(Guarded(cond, ra))
        if rb:
            out.append(Guarded(T.lnot(cond), rb))
        return out

    def elem_tys(self, ty, agg):
        n = len(agg)
        if ty is None:
            return [None] * n
        if ty.kind in ('array', 'slice'):
            return [ty.args[0]] * n
        if ty.kind == 'tuple':
            return list(ty.args) + [None] * (n - len(ty.args))
        if ty.kind == 'adt':
            if agg.tag == 'enum':
                if ty.name == 'Option' and ty.args:
                    return [parse_type('isize'), ty.args[0]][:n] + [None] * max(0, n - 2)
                return [parse_type('isize')] + [None] * (n - 1)
            if agg.tag in ('Range', 'RangeIncl', 'RangeTo', 'RangeFrom') and ty.args:
                return [ty.args[0]] * min(n, 2) + [None] * max(0, n - 2)
            ft = self.prog.struct_tys.get(ty.name)
            if ft is not None and len(ft) == n:
                out = []
                for s in ft:
                    try:
                        out.append(parse_type(s))
                    except Exception:
                        out.append(None)
                return out
        return [None] * n

    # -- rvalues
    def assign(self, fr, place, rv):
        k = rv[0]
        if k == 'use':
            v = self.operand(fr, rv[1])
        elif k == 'binop':
            v = self.binop(fr, rv[1], rv[2], rv[3])
        elif k == 'ref':
            v = self.mkref(fr, rv[1])
        elif k == 'cast':
            v = self.cast(fr, rv[1], rv[2], rv[3])
        elif k == 'unop':
            v = self.unop(fr, rv[1], rv[2])
        elif k == 'discriminant':
            x = self.load(fr, rv[1])
            if type(x) is L and x.tag in ('enum', 'symenum'):
                v = x[0]
            elif type(x) is int:
                v = x
            elif type(x) is Term:
                v = T.zext(x.w, 64, x)
            else:
                raise Unsupported('discriminant of %r' % (x,))
        elif k == 'tuple':
            v = self.mk([self.operand(fr, o) for o in rv[1]]) if rv[1] else UNIT
        elif k == 'array':
            v = self.mk([self.operand(fr, o) for o in rv[1]])
            dty = self.place_ty(fr, place)
            if dty is not None and dty.kind == 'array':
                v.ew = self.scalar_width(dty.args[0])
        elif k == 'repeat':
            x = self.operand(fr, rv[1])
            n = rv[2]
            if type(n) is not int:
                n = self.named_const(n[1])
            if type(x) is L:
                v = self.mk([self.copy_val(x) for _ in range(n)])
            else:
                v = self.mk([x] * n)
                dty = self.place_ty(fr, place)
                if dty is not None and dty.kind == 'array':
                    v.ew = self.scalar_width(dty.args[0])
        elif k == 'struct':
            v = self.mk_struct(fr, rv[1], rv[2])
        elif k == 'ctor':
            v = self.ctor(fr, rv[1], rv[2])
        elif k == 'closure':
            v = self.mk([self.operand(fr, o) for o in rv[2]], 'closure:' + rv[1])
        elif k == 'len':
            x = self.load(fr, rv[1])
            v = x.len if type(x) is SliceRef else len(x)
        else:
            raise Unsupported('rvalue %r in %s' % (rv, fr.fn.name))
        if not place.proj:
            c, kk = fr.locals, place.local
        else:
            c, kk = self.loc(fr, place)
            if c is None:
                raise Unsupported('store through symbolic index: %s in %s' % (place, fr.fn.name))
        j = self.journal
        if j is not None and c.birth <= self.arm_birth:
            j.append((c, kk, c[kk], self.place_ty(fr, place)))
        c[kk] = v

    def mk_struct(self, fr, name, fields):
        sname = strip_generics(re.sub(r'::<.*?>', '', name))
        vals = {k: self.operand(fr, o) for k, o in fields}
        if sname in ('Range',):
            return self.mk([vals['start'], vals['end']], 'Range')
        if sname == 'RangeTo':
            return self.mk([vals['end']], 'RangeTo')
        if sname == 'RangeFrom':
            return self.mk([vals['start']], 'RangeFrom')
        order = self.prog.structs.get(sname)
        if order is None:
            # enum struct-variant?
            raise Unsupported('struct literal of unknown type %s' % name)
        return self.mk([vals[f] for f in order], sname)

    def ctor(self, fr, name, ops):
        # closures with captures are printed as {closure@..}(captures)? handled by 'closure'
        plain = re.sub(r'::<.*?>(?=::|$)', '', name)
        parts = plain.split('::')
        args = [self.operand(fr, o) for o in ops]
        last = parts[-1]
        if len(parts) >= 2:
            owner = parts[-2]
            if owner in BUILTIN_ENUMS and last in BUILTIN_ENUMS[owner]:
                return self.mk([BUILTIN_ENUMS[owner].index(last)] + args, 'enum')
            if owner in self.prog.enums:
                idx, dv, nf = self.prog.variant(owner, last)
                if owner in self.prog.clike:
                    return dv & 0xFF if dv >= 0 else dv & ((1 << 64) - 1)
                return self.mk([dv] + args, 'enum')
            if owner == 'Ordering' and last in ORDERING:
                return ORDERING[last]
        if last in self.prog.structs:
            return self.mk(args, last)
        if last in ('Some', 'None', 'Ok', 'Err'):
            for en, vs in BUILTIN_ENUMS.items():
                if last in vs:
                    return self.mk([vs.index(last)] + args, 'enum')
        if name.startswith('{closure@'):
            return self.mk(args, 'closure:' + name.split('}')[0] + '}')
        if not args and re.match(r'^[\w:]+$', name) and '::' in name:
            # unit variant of a library enum we do not model (e.g. std::io::ErrorKind::Other): opaque token
            return self.mk([name], 'opaque')
        raise Unsupported('constructor %s' % name)

    def mkref(self, fr, place):
        if not place.proj:
            return Ptr(fr.locals, place.local)
        c, k = self.loc(fr, place)
        if c is None:
            if type(k) is SliceRef:
                return k     # &(*slice_ref)  reborrow
            raise Unsupported('reference to symbolic-index place %s' % (place,))
        return Ptr(c, k)

    def int_ty(self, fr, op):
        ty = self.operand_ty(fr, op)
        if ty is None:
            raise Unsupported('untyped operand %r in %s' % (op, fr.fn.name))
        if ty.kind in ('int', 'bool', 'char'):
            return ty.bits, ty.signed
        if ty.kind == 'float':
            return 'f', False
        if ty.kind == 'adt' and ty.name in self.prog.clike:
            return 8, False
        if ty.kind in ('ptr', 'fnptr', 'ref'):
            return 64, False
        raise Unsupported('non-scalar operand type %s in %s' % (ty, fr.fn.name))

    def binop(self, fr, op, a_op, b_op):
        a = self.operand(fr, a_op)
        b = self.operand(fr, b_op)
        if type(a) is Float or type(b) is Float:
            from . import fpterms
            return fpterms.binop(op, a, b)
        w, signed = self.int_ty(fr, a_op)
        if w == 'f':
            raise Unsupported('float binop with non-float values')
        ta, tb = type(a), type(b)
        if ta not in (int, Term) or tb not in (int, Term):
            if op in ('Eq', 'Ne') and ta is FnRef and tb is FnRef:
                r = 1 if a.name == b.name else 0
                return r if op == 'Eq' else 1 - r
            raise Unsupported('binop %s on %r, %r' % (op, a, b))
        if op == 'Add' or op == 'AddUnchecked':
            return T.add(w, a, b)
        if op == 'Sub' or op == 'SubUnchecked':
            return T.sub(w, a, b)
        if op == 'Mul' or op == 'MulUnchecked':
            return T.mul(w, a, b)
        if op == 'BitXor':
            return T.bxor(w, a, b)
        if op == 'BitAnd':
            return T.band(w, a, b)
        if op == 'BitOr':
            return T.bor(w, a, b)
        if op == 'Eq':
            return T.eq(w, a, b)
        if op == 'Ne':
            return T.ne(w, a, b)
        if op == 'Lt':
            return T.slt(w, a, b) if signed else T.ult(w, a, b)
        if op == 'Le':
            return T.sle(w, a, b) if signed else T.ule(w, a, b)
        if op == 'Gt':
            return T.slt(w, b, a) if signed else T.ult(w, b, a)
        if op == 'Ge':
            return T.sle(w, b, a) if signed else T.ule(w, b, a)
        if op in ('Shl', 'Shr', 'ShlUnchecked', 'ShrUnchecked'):
            wb, _ = self.int_ty(fr, b_op)
            # MIR Shl/Shr mask the amount (overflow is checked separately by an assert on the amount)
            if type(b) is int:
                s = b & (w - 1)
            else:
                s = T.cast_int(wb, False, w, b) if wb != w else b
                s = T.band(w, s, w - 1)
            if op.startswith('Shl'):
                return T.shl(w, a, s)
            return T.ashr(w, a, s) if signed else T.lshr(w, a, s)
        if op == 'Div':
            return T.sdiv(w, a, b) if signed else T.udiv(w, a, b)
        if op == 'Rem':
            return T.srem(w, a, b) if signed else T.urem(w, a, b)
        if op in ('AddWithOverflow', 'SubWithOverflow', 'MulWithOverflow'):
            if signed:
                return self.signed_overflow(op, w, a, b)
            if op == 'AddWithOverflow':
                r = T.add(w, a, b)
                if ta is int and tb is int:
                    o = 1 if a + b >= (1 << w) else 0
                elif T.umax(a, w) + T.umax(b, w) < (1 << w):
                    o = 0
                else:
                    o = T.ult(w, r, a)
            elif op == 'SubWithOverflow':
                r = T.sub(w, a, b)
                o = T.ult(w, a, b)
            else:
                r = T.mul(w, a, b)
                if ta is int and tb is int:
                    o = 1 if a * b >= (1 << w) else 0
                elif T.umax(a, w) * T.umax(b, w) < (1 << w):
                    o = 0
                else:
                    wide = T.mul(2 * w, T.zext(w, 2 * w, a), T.zext(w, 2 * w, b))
                    o = T.lnot(T.eq(2 * w, T.lshr(2 * w, wide, w), 0))
            return self.mk([r, o])
        if op == 'Cmp':
            lt = T.slt(w, a, b) if signed else T.ult(w, a, b)
            e = T.eq(w, a, b)
            return T.ite(8, lt, 0xFF, T.ite(8, e, 0, 1))
        raise Unsupported('binop %s' % op)

    def signed_overflow(self, op, w, a, b):
        if type(a) is int and type(b) is int:
            sa, sb = T._to_signed(a, w), T._to_signed(b, w)
            r = {'AddWithOverflow': sa + sb, 'SubWithOverflow': sa - sb, 'MulWithOverflow': sa * sb}[op]
            o = 0 if -(1 << (w - 1)) <= r < (1 << (w - 1)) else 1
            return self.mk([r & ((1 << w) - 1), o])
        raise Unsupported('symbolic signed overflow arithmetic')

    def unop(self, fr, op, a_op):
        a = self.operand(fr, a_op)
        if op == 'PtrMetadata':
            if type(a) is OpaqueSlice:
                return a.length
            if type(a) is SliceRef:
                return a.len
            if type(a) is Ptr:
                v = a.c[a.k]
                if type(v) is L:
                    return len(v)
            raise Unsupported('PtrMetadata of %r' % (a,))
        if type(a) is Float:
            from . import fpterms
            return fpterms.unop(op, a)
        w, signed = self.int_ty(fr, a_op)
        if op == 'Not':
            return T.bnot(w, a)
        if op == 'Neg':
            return T.neg(w, a)
        raise Unsupported('unop %s' % op)

    def cast(self, fr, op, ty, kind):
        v = self.operand(fr, op)
        if kind == 'IntToInt':
            w, signed = self.int_ty(fr, op)
            if ty.kind not in ('int', 'char', 'bool'):
                raise Unsupported('IntToInt to %s' % ty)
            return T.cast_int(w, signed, ty.bits, v)
        if kind == 'IntToFloat':
            from . import fpterms
            w, signed = self.int_ty(fr, op)
            return fpterms.from_int(v, w, signed)
        if kind == 'FloatToInt':
            from . import fpterms
            return fpterms.to_int(v, ty.bits, ty.signed)
        if kind.startswith('PointerCoercion(Unsize'):
            if type(v) is Ptr:
                tgt = v.c[v.k]
                if ty.kind == 'ref' and ty.args[0].kind == 'slice':
                    if type(tgt) is L:
                        return SliceRef(tgt, 0, len(tgt))
                    raise Unsupported('unsize of %r' % (tgt,))
                return v      # &dyn Trait: keep the pointer
            if type(v) is SliceRef:
                return v
            raise Unsupported('unsize cast of %r' % (v,))
        if kind.startswith('PointerCoercion(ReifyFnPointer') or kind.startswith('PointerCoercion(ClosureFnPointer'):
            return v
        if kind in ('PtrToPtr', 'FnPtrToPtr', 'PointerCoercion(MutToConstPointer, Implicit)') or kind.startswith('PointerCoercion(MutToConst'):
            return v
        if kind == 'Transmute':
            # NonNull<T> / Unique<T> -> raw pointer: unwrap the single pointer field; pointer -> integer: a fixed
            # non-null, 16-byte aligned address (only ever used by the compiler's alignment/null debug asserts)
            while type(v) is L and len(v) == 1 and type(v[0]) in (Ptr, L) and v.tag in ('NonNull', 'Unique'):
                v = v[0]
            if type(v) is Ptr and ty.kind == 'int':
                return 0x10000
            return v
        if kind in ('PointerExposeProvenance', 'PointerWithExposedProvenance'):
            return v
        raise Unsupported('cast kind %s' % kind)


APPEND = 'append'
ITER_TAGS = {'Range', 'RangeIncl', 'StepBy', 'Rev', 'Chain', 'Enumerate', 'Skip', 'SliceIter', 'ArrIter', 'ChunksExact',
             'Zip', 'Take', 'Copied', 'Chunks', 'Windows'}
USIZE = parse_type('usize')


class _Dead:
    def __repr__(self):
        return 'DEAD'


DEAD = _Dead()
