"""SMT-LIB2 emission of term DAGs and a persistent incremental solver process."""
import subprocess
import time
import re
import os
from . import terms as T
from .terms import Term


def _bv(w, v):
    v &= (1 << w) - 1
    if w % 4 == 0:
        return '#x%0*x' % (w // 4, v)
    return '#b' + format(v, '0%db' % w)


class Emitter:
    """Emits define-funs for DAG nodes on demand; remembers what was already defined."""

    def __init__(self, lut_mode='uf'):
        self.lut_mode = lut_mode
        self.defined = {}     # term id -> smt name
        self.lines = []
        self.lut_names = {}   # (id(table), base_w, w) -> name
        self.vars = {}        # name -> width
        self.fvars = {}       # FP variable names

    def _lut_fn(self, tbl, bw, w):
        key = (id(tbl), bw, w)
        n = self.lut_names.get(key)
        if n:
            return n
        n = 'lut%d' % len(self.lut_names)
        self.lut_names[key] = n

        if self.lut_mode == 'ite':
            # balanced ite tree on the bits of the argument: bit-blasts to a small circuit; best for shallow terms
            def tree(lo, hi, bit):
                if all(tbl[i] == tbl[lo] for i in range(lo, hi)):
                    return _bv(w, tbl[lo])
                mid = (lo + hi) // 2
                return '(ite (= ((_ extract %d %d) x) #b1) %s %s)' % (bit, bit, tree(mid, hi, bit - 1), tree(lo, mid, bit - 1))
            self.lines.append('(define-fun %s ((x (_ BitVec %d))) (_ BitVec %d) %s)' % (n, bw, w, tree(0, 1 << bw, bw - 1)))
            return n
        # an uninterpreted function pinned on every point of its (<= 8 bit) domain: for deeply nested luts
        # (Reed-Solomon) z3 and cvc5 decide this form in milliseconds where nested ite trees took minutes
        self.lines.append('(declare-fun %s ((_ BitVec %d)) (_ BitVec %d))' % (n, bw, w))
        for i, v in enumerate(tbl):
            self.lines.append('(assert (= (%s %s) %s))' % (n, _bv(bw, i), _bv(w, v)))
        return n

    def _tblsel_fn(self, tbl, iw, w):
        key = (id(tbl), 'sel', iw, w)
        n = self.lut_names.get(key)
        if n:
            return n
        n = 'sel%d' % len(self.lut_names)
        self.lut_names[key] = n
        # binary search tree on the index
        def tree(lo, hi):
            if hi - lo == 1 or all(tbl[i] == tbl[lo] for i in range(lo, hi)):
                return _bv(w, tbl[lo])
            mid = (lo + hi) // 2
            return '(ite (bvult x %s) %s %s)' % (_bv(iw, mid), tree(lo, mid), tree(mid, hi))
        self.lines.append('(define-fun %s ((x (_ BitVec %d))) (_ BitVec %d) %s)' % (n, iw, w, tree(0, len(tbl))))
        return n

    def ref(self, t, w=None):
        if not isinstance(t, Term):
            assert w is not None
            return _bv(w, t)
        n = self.defined.get(t.id)
        if n is not None:
            return n
        # iterative post-order
        stack = [t]
        while stack:
            x = stack[-1]
            if x.id in self.defined:
                stack.pop()
                continue
            pend = [a for a in x.args if isinstance(a, Term) and a.id not in self.defined]
            if pend:
                stack.extend(pend)
                continue
            stack.pop()
            self._define(x)
        return self.defined[t.id]

    def _define(self, x):
        op, w = x.op, x.w
        if op == 'const':
            self.defined[x.id] = _bv(w, x.val)
            return
        if op == 'var':
            name = '|%s|' % x.val
            if x.val not in self.vars:
                self.vars[x.val] = w
                self.lines.append('(declare-const %s (_ BitVec %d))' % (name, w))
                rng = T.VAR_RANGE.get(x.val)
                if rng is not None:
                    self.lines.append('(assert (bvult %s %s))' % (name, _bv(w, rng)))
            self.defined[x.id] = name
            return
        if op.startswith('fp'):
            return self._define_fp(x)
        a = [self.defined[y.id] for y in x.args]
        if op in ('xor', 'and', 'or', 'add', 'mul'):
            smt = {'xor': 'bvxor', 'and': 'bvand', 'or': 'bvor', 'add': 'bvadd', 'mul': 'bvmul'}[op]
            e = a[0]
            for y in a[1:]:
                e = '(%s %s %s)' % (smt, e, y)
        elif op in ('sub', 'udiv', 'urem', 'sdiv', 'srem', 'shl', 'lshr', 'ashr'):
            smt = {'sub': 'bvsub', 'udiv': 'bvudiv', 'urem': 'bvurem', 'sdiv': 'bvsdiv', 'srem': 'bvsrem',
                   'shl': 'bvshl', 'lshr': 'bvlshr', 'ashr': 'bvashr'}[op]
            e = '(%s %s %s)' % (smt, a[0], a[1])
        elif op == 'not':
            e = '(bvnot %s)' % a[0]
        elif op == 'zext':
            e = '((_ zero_extend %d) %s)' % (w - x.args[0].w, a[0])
        elif op == 'sext':
            e = '((_ sign_extend %d) %s)' % (w - x.args[0].w, a[0])
        elif op == 'trunc':
            e = '((_ extract %d 0) %s)' % (w - 1, a[0])
        elif op == 'eq':
            e = '(ite (= %s %s) #b1 #b0)' % (a[0], a[1])
        elif op == 'ult':
            e = '(ite (bvult %s %s) #b1 #b0)' % (a[0], a[1])
        elif op == 'slt':
            e = '(ite (bvslt %s %s) #b1 #b0)' % (a[0], a[1])
        elif op == 'ite':
            e = '(ite (= %s #b1) %s %s)' % (a[0], a[1], a[2])
        elif op == 'lut':
            e = '(%s %s)' % (self._lut_fn(x.val, x.args[0].w, w), a[0])
        elif op == 'tblsel':
            e = '(%s %s)' % (self._tblsel_fn(x.val, x.args[0].w, w), a[0])
        else:
            raise NotImplementedError(op)
        name = 'n%d' % x.id
        self.lines.append('(define-fun %s () (_ BitVec %d) %s)' % (name, w, e))
        self.defined[x.id] = name

    def _define_fp(self, x):
        op = x.op
        F64 = '(_ FloatingPoint 11 53)'
        if op == 'fp.var':
            name = '|%s|' % x.val
            if x.val not in self.fvars:
                self.fvars[x.val] = True
                self.lines.append('(declare-const %s %s)' % (name, F64))
            self.defined[x.id] = name
            return
        if op == 'fp.const':
            b = x.val
            self.defined[x.id] = '(fp #b%d #b%s #b%s)' % (b >> 63, format((b >> 52) & 0x7FF, '011b'), format(b & ((1 << 52) - 1), '052b'))
            return
        a = [self.defined[y.id] for y in x.args]
        sort = F64
        if op == 'fp.add':
            e = '(fp.add RNE %s %s)' % (a[0], a[1])
        elif op == 'fp.sub':
            e = '(fp.sub RNE %s %s)' % (a[0], a[1])
        elif op == 'fp.mul':
            e = '(fp.mul RNE %s %s)' % (a[0], a[1])
        elif op == 'fp.div':
            e = '(fp.div RNE %s %s)' % (a[0], a[1])
        elif op == 'fp.neg':
            e = '(fp.neg %s)' % a[0]
        elif op == 'fp.round':
            e = '(fp.roundToIntegral RNA %s)' % a[0]
        elif op == 'fp.trunc':
            e = '(fp.roundToIntegral RTZ %s)' % a[0]
        elif op == 'fp.fmod':
            # only ever compared with zero in this crate: x % y == 0 iff the IEEE remainder is zero
            e = '(fp.rem %s %s)' % (a[0], a[1])
        elif op == 'fp.from_ubv':
            e = '((_ to_fp_unsigned 11 53) RNE %s)' % a[0]
        elif op == 'fp.ite':
            e = '(ite (= %s #b1) %s %s)' % (a[0], a[1], a[2])
        elif op == 'fpcmp.eq':
            e, sort = '(ite (fp.eq %s %s) #b1 #b0)' % (a[0], a[1]), '(_ BitVec 1)'
        elif op == 'fpcmp.lt':
            e, sort = '(ite (fp.lt %s %s) #b1 #b0)' % (a[0], a[1]), '(_ BitVec 1)'
        elif op == 'fpcmp.le':
            e, sort = '(ite (fp.leq %s %s) #b1 #b0)' % (a[0], a[1]), '(_ BitVec 1)'
        elif op == 'fpcmp.same':
            e, sort = '(ite (= %s %s) #b1 #b0)' % (a[0], a[1]), '(_ BitVec 1)'
        elif op == 'fpcmp.finite':
            e, sort = '(ite (or (fp.isInfinite %s) (fp.isNaN %s)) #b0 #b1)' % (a[0], a[0]), '(_ BitVec 1)'
        else:
            raise NotImplementedError(op)
        name = 'n%d' % x.id
        self.lines.append('(define-fun %s () %s %s)' % (name, sort, e))
        self.defined[x.id] = name

    def take_lines(self):
        out = self.lines
        self.lines = []
        return out


class SolverError(Exception):
    pass


SOLVERS = {
    'z3': ['/usr/bin/z3', '-in', '-smt2'],
    'z3-new': ['z3-new', '-in', '-smt2'],
    'cvc5': ['cvc5', '--lang', 'smt2', '--incremental', '--produce-models'],
}


class Solver:
    """One persistent solver process; queries are push/assert/check-sat/pop."""

    def __init__(self, which='z3', timeout_ms=60000, logic='ALL', log=None, lut_mode='uf'):
        self.which = which
        self.timeout_ms = timeout_ms
        self.proc = subprocess.Popen(SOLVERS[which], stdin=subprocess.PIPE, stdout=subprocess.PIPE,
                                     stderr=subprocess.STDOUT, bufsize=0)
        self._buf = b''
        self._out = []
        self.em = Emitter(lut_mode)
        self.dead = False
        self.time_s = 0.0
        self.n_queries = 0
        self.stats = {'unsat': 0, 'sat': 0, 'unknown': 0}
        self.log = open(log, 'w') if log else None
        self._send('(set-option :produce-models true)')
        self._send('(set-logic %s)' % logic)
        if which.startswith('z3'):
            self._send('(set-option :timeout %d)' % timeout_ms)
        elif which == 'cvc5':
            self._send('(set-option :tlimit-per %d)' % timeout_ms)

    def version(self):
        try:
            out = subprocess.run([SOLVERS[self.which][0], '--version'], capture_output=True, text=True).stdout
            return out.strip().splitlines()[0]
        except Exception as e:  # pragma: no cover
            return 'unknown (%s)' % e

    def _send(self, line):
        if self.log:
            self.log.write(line + '\n')
        self._out.append(line + '\n')
        if len(self._out) > 2000:
            self._flush()

    def _flush(self):
        if self._out:
            data = ''.join(self._out).encode()
            self._out = []
            try:
                self.proc.stdin.write(data)
            except BrokenPipeError:
                raise SolverError('solver %s died' % self.which)

    def _readline(self, deadline):
        """one line from the solver, or None on watchdog expiry"""
        import select
        while b'\n' not in self._buf:
            r, _, _ = select.select([self.proc.stdout], [], [], max(0.0, deadline - time.time()))
            if not r:
                return None
            chunk = os.read(self.proc.stdout.fileno(), 65536)
            if not chunk:
                raise SolverError('solver %s died' % self.which)
            self._buf += chunk
        line, self._buf = self._buf.split(b'\n', 1)
        return line.decode(errors='replace')

    def _read_answer(self):
        self._flush()
        # watchdog: the solver's own timeout is not honoured during preprocessing of huge inputs
        deadline = time.time() + self.timeout_ms / 1000.0 * 1.5 + 10
        while True:
            line = self._readline(deadline)
            if line is None:
                self.proc.kill()
                self.dead = True
                return 'unknown'
            line = line.strip()
            if not line:
                continue
            if line.startswith('(error'):
                raise SolverError('%s: %s' % (self.which, line))
            return line

    def _pending_line(self):
        return False

    def flush_defs(self):
        for l in self.em.take_lines():
            self._send(l)

    def assume(self, cond):
        """permanent assertion cond == 1"""
        if not isinstance(cond, Term):
            if not cond & 1:
                self._send('(assert false)')
            return
        r = self.em.ref(cond)
        self.flush_defs()
        self._send('(assert (= %s #b1))' % r)

    def check(self, conds, want_model=False):
        """Is the conjunction of the width-1 terms `conds` satisfiable?
        Returns ('unsat'|'sat'|'unknown', model or None)."""
        if self.dead:
            self.stats['unknown'] += 1
            self.n_queries += 1
            return 'unknown', None
        lits = []
        for c in conds:
            if not isinstance(c, Term):
                if not c & 1:
                    self.stats['unsat'] += 1
                    return 'unsat', None
                continue
            lits.append(self.em.ref(c))
        self.flush_defs()
        self._send('(push 1)')
        for l in lits:
            self._send('(assert (= %s #b1))' % l)
        self._send('(check-sat)')
        t0 = time.time()
        ans = self._read_answer()
        self.time_s += time.time() - t0
        self.n_queries += 1
        model = None
        if ans not in ('sat', 'unsat', 'unknown', 'timeout'):
            raise SolverError('%s: unexpected answer %r' % (self.which, ans))
        if ans == 'timeout':
            ans = 'unknown'
        self.stats[ans] += 1
        if self.dead:
            return ans, None
        if ans == 'sat' and want_model:
            model = self.model()
        self._send('(pop 1)')
        return ans, model

    def model(self):
        if not self.em.vars and not self.em.fvars:
            return {}
        names = list(self.em.vars)
        model = {}
        fn = list(self.em.fvars)
        for i in range(0, len(fn), 50):
            chunk = fn[i:i + 50]
            self._send('(get-value (%s))' % ' '.join('|%s|' % n for n in chunk))
            self._flush()
            buf = ''
            depth = 0
            started = False
            while True:
                ch = self._readline(time.time() + 120)
                if ch is None:
                    raise SolverError('solver stalled in get-value')
                buf += ch + '\n'
                depth += ch.count('(') - ch.count(')')
                if '(' in ch:
                    started = True
                if started and depth <= 0:
                    break
            import struct
            for mm in re.finditer(r'\((\|[^|]*\||[^\s()|]+)\s+\(fp\s+#b([01])\s+#b([01]+)\s+(#b[01]+|#x[0-9a-fA-F]+)\)\)', buf):
                sg, ex, mn = int(mm.group(2)), int(mm.group(3), 2), mm.group(4)
                mnv = int(mn[2:], 2) if mn[1] == 'b' else int(mn[2:], 16)
                bits = (sg << 63) | (ex << 52) | mnv
                model[mm.group(1).strip('|')] = struct.unpack('<d', struct.pack('<Q', bits))[0]
            for mm in re.finditer(r'\((\|[^|]*\||[^\s()|]+)\s+\(_\s+([+-])(zero|oo)\s+11\s+53\)\)', buf):
                val = 0.0 if mm.group(3) == 'zero' else float('inf')
                model[mm.group(1).strip('|')] = -val if mm.group(2) == '-' else val
            for mm in re.finditer(r'\((\|[^|]*\||[^\s()|]+)\s+\(_\s+NaN\s+11\s+53\)\)', buf):
                model[mm.group(1).strip('|')] = float('nan')
        if not names:
            return model
        for i in range(0, len(names), 200):
            chunk = names[i:i + 200]
            self._send('(get-value (%s))' % ' '.join('|%s|' % n for n in chunk))
            self._flush()
            buf = ''
            depth = 0
            started = False
            while True:
                ch = self._readline(time.time() + 120)
                if ch is None:
                    raise SolverError('solver stalled in get-value')
                ch += '\n'
                buf += ch
                depth += ch.count('(') - ch.count(')')
                if '(' in ch:
                    started = True
                if started and depth <= 0:
                    break
            if '(error' in buf:
                raise SolverError(buf)
            for mm in re.finditer(r'\((\|[^|]*\||[^\s()|]+)\s+(#x[0-9a-fA-F]+|#b[01]+)\)', buf):
                v = mm.group(2)
                model[mm.group(1).strip('|')] = int(v[2:], 16) if v[1] == 'x' else int(v[2:], 2)
        return model

    def close(self):
        try:
            self._send('(exit)')
            self._flush()
            self.proc.wait(timeout=5)
        except Exception:
            self.proc.kill()
        if self.log:
            self.log.close()
