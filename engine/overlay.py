"""Scratch overlay of /repo (DESIGN.md 2.1): a copy of the working tree with three extra
module declarations appended to src/lib.rs; nothing under /repo is edited.  Used for the MIR
dump, the native replay binary and the Kani runs.  Removed (with its build output) at exit."""
import atexit
import os
import shutil
import signal
import subprocess
import sys
import tempfile
import time

VERIF = os.path.dirname(os.path.dirname(os.path.abspath(__file__)))
REPO = os.environ.get('VERIF_REPO', '/repo')

APPEND = '''
// ---- appended by /verif (scratch overlay only) ----
#[cfg(any(kani, fast_qr_verif))] #[path = "wasm.rs"] pub mod wasm_host;
#[cfg(kani)] #[path = "%(verif)s/harness/kani/mod.rs"] mod verif_kani;
#[cfg(fast_qr_verif)] #[path = "%(replay)s/mod.rs"] pub mod verif_replay;
'''

_live = []
_owner = os.getpid()


def _cleanup():
    if os.getpid() != _owner:
        return          # forked pool workers inherit the handlers; only the creating process removes the overlay
    for d in list(_live):
        shutil.rmtree(d, ignore_errors=True)
        try:
            _live.remove(d)
        except ValueError:
            pass


atexit.register(_cleanup)


def _on_signal(signum, frame):
    _cleanup()
    if os.getpid() != _owner:
        os._exit(128 + signum)
    sys.exit(128 + signum)


for _s in (signal.SIGTERM, signal.SIGINT):
    try:
        signal.signal(_s, _on_signal)
    except Exception:
        pass


class Overlay:
    def __init__(self, repo=None, keep=False):
        self.repo = repo or REPO
        base = os.environ.get('VERIF_SCRATCH') or tempfile.gettempdir()
        self.dir = tempfile.mkdtemp(prefix='fqv-', dir=base)
        if not keep:
            _live.append(self.dir)
        for name in ('src', 'benches', 'examples'):
            s = os.path.join(self.repo, name)
            if os.path.isdir(s):
                shutil.copytree(s, os.path.join(self.dir, name))
        for name in ('Cargo.toml', 'Cargo.lock', 'README.md', 'LICENSE'):
            s = os.path.join(self.repo, name)
            if os.path.isfile(s):
                shutil.copy(s, os.path.join(self.dir, name))
        # the replay harness is copied (so that entries which no longer compile against this tree can be disabled, see _degrade)
        self.replay_dir = os.path.join(self.dir, 'verif_replay')
        shutil.copytree(os.path.join(VERIF, 'harness', 'replay'), self.replay_dir)
        self.disabled_entries = []
        with open(os.path.join(self.dir, 'src', 'lib.rs'), 'a') as fh:
            fh.write(APPEND % {'verif': VERIF, 'replay': self.replay_dir})
        os.makedirs(os.path.join(self.dir, 'src', 'bin'), exist_ok=True)
        shutil.copy(os.path.join(VERIF, 'harness', 'replay', 'bin.rs'),
                    os.path.join(self.dir, 'src', 'bin', 'verif_replay.rs'))
        os.makedirs(os.path.join(self.dir, '.cargo'), exist_ok=True)
        with open(os.path.join(self.dir, '.cargo', 'config.toml'), 'w') as fh:
            fh.write('[net]\noffline = true\n')
        self._mir = {}
        self._native = {}
        self.timings = {}

    def env(self, extra=None):
        e = dict(os.environ)
        e['CARGO_NET_OFFLINE'] = 'true'
        e.pop('RUSTFLAGS', None)
        if extra:
            e.update(extra)
        return e

    def source_digest(self):
        import hashlib
        h = hashlib.sha256()
        for root, _, files in sorted(os.walk(os.path.join(self.repo, 'src'))):
            for f in sorted(files):
                p = os.path.join(root, f)
                h.update(p.encode())
                with open(p, 'rb') as fh:
                    h.update(fh.read())
        return h.hexdigest()[:16]

    def _degrade(self, stderr):
        """a change of the tree can alter the signature of an internal function that a replay entry calls; the entry then
        stops compiling and would take every check with it.  Disable exactly the entries (match arms of the replay harness)
        the compiler errors point into; requests for them are answered `ERR entry disabled`, so only the jobs that need them
        become inconclusive.  -> True if something was disabled (caller retries)."""
        import re
        hits = {}
        for m in re.finditer(r'--> (\S*verif_replay/(\w+)\.rs):(\d+):\d+', stderr):
            hits.setdefault(m.group(1), set()).add(int(m.group(3)))
        changed = False
        for path, lines in hits.items():
            if not os.path.isabs(path):
                path = os.path.join(self.dir, path)
            if not os.path.isfile(path):
                continue
            src = open(path).read().split('\n')
            starts = [i for i, l in enumerate(src) if re.match(r'^        (#\[cfg\(.*\)\]\s*)?"\w+" =>', l)]
            for ln in sorted(lines):
                idx = ln - 1
                arm = max([i for i in starts if i <= idx], default=None)
                if arm is None:
                    continue
                nxt = min([i for i in starts if i > arm] + [j for j in range(arm + 1, len(src)) if re.match(r'^        (other|_) =>', src[j])], default=None)
                if nxt is None or idx >= nxt:
                    continue
                name = re.search(r'"(\w+)" =>', src[arm]).group(1)
                if name in self.disabled_entries:
                    continue
                pre = re.match(r'^(\s*(?:#\[cfg\(.*\)\]\s*)?)', src[arm]).group(1)
                src[arm:nxt] = ['%s"%s" => "ERR entry disabled: it no longer compiles against this tree".to_string(),' % (pre, name)] + [''] * (nxt - arm - 1)
                self.disabled_entries.append(name)
                changed = True
                starts = [i for i, l in enumerate(src) if re.match(r'^        (#\[cfg\(.*\)\]\s*)?"\w+" =>', l)]
            open(path, 'w').write('\n'.join(src))
        return changed

    def mir(self, features='svg'):
        """textual MIR of the whole crate (debug assertions and overflow checks on)"""
        if features in self._mir:
            return self._mir[features]
        t0 = time.time()
        cmd = ['cargo', '+nightly', 'rustc', '--offline', '--lib',
               '--target-dir', os.path.join(self.dir, 'tgt-mir')]
        if features:
            cmd += ['--features', features]
        cmd += ['--', '--cfg', 'fast_qr_verif', '-Zunpretty=mir', '-C', 'debug-assertions=on', '-C', 'overflow-checks=on']
        for attempt in range(6):
            r = subprocess.run(cmd, cwd=self.dir, env=self.env(), capture_output=True, text=True)
            if r.returncode == 0 and 'fn ' in r.stdout:
                break
            if not self._degrade(r.stderr):
                break
        if r.returncode != 0 or 'fn ' not in r.stdout:
            raise RuntimeError('MIR dump failed:\n' + r.stderr[-4000:])
        self._mir[features] = r.stdout
        self.timings['mir_dump_s'] = round(time.time() - t0, 2)
        return r.stdout

    def native(self, features='svg', release=False):
        """path of the native replay binary built from the overlay"""
        key = (features, release)
        if key in self._native:
            return self._native[key]
        t0 = time.time()
        tgt = os.path.join(self.dir, 'tgt-native')
        cmd = ['cargo', 'build', '--offline', '--bin', 'verif_replay', '--target-dir', tgt]
        if features:
            cmd += ['--features', features]
        if release:
            cmd += ['--release']
        env = self.env({'RUSTFLAGS': '--cfg fast_qr_verif -C debug-assertions=on -C overflow-checks=on' if not release
                        else '--cfg fast_qr_verif'})
        for attempt in range(6):
            r = subprocess.run(cmd, cwd=self.dir, env=env, capture_output=True, text=True)
            if r.returncode == 0 or not self._degrade(r.stderr):
                break
        if r.returncode != 0:
            raise RuntimeError('native replay build failed:\n' + r.stderr[-6000:])
        p = os.path.join(tgt, 'release' if release else 'debug', 'verif_replay')
        self._native[key] = p
        self.timings['native_build_s' + ('_release' if release else '')] = round(time.time() - t0, 2)
        return p

    def close(self):
        shutil.rmtree(self.dir, ignore_errors=True)
        if self.dir in _live:
            _live.remove(self.dir)


class Native:
    """persistent replay process"""

    def __init__(self, path):
        self.path = path
        self.proc = None
        self.n = 0

    def _start(self):
        self.proc = subprocess.Popen([self.path], stdin=subprocess.PIPE, stdout=subprocess.PIPE,
                                     stderr=subprocess.DEVNULL, text=True, bufsize=1)

    def ask(self, line):
        if self.proc is None or self.proc.poll() is not None:
            self._start()
        self.n += 1
        try:
            self.proc.stdin.write(line + '\n')
            self.proc.stdin.flush()
            out = self.proc.stdout.readline()
        except BrokenPipeError:
            out = ''
        if out == '':
            self.proc = None
            return 'ABORT'
        return out.rstrip('\n')

    def close(self):
        if self.proc is not None:
            try:
                self.proc.stdin.close()
                self.proc.wait(timeout=5)
            except Exception:
                self.proc.kill()


def hexs(b):
    return bytes(b).hex() if len(b) else '-'


def parse_fields(ans):
    """'k=v k=v' -> dict"""
    out = {}
    for tok in ans.split():
        if '=' in tok:
            k, v = tok.split('=', 1)
            out[k] = v
        else:
            out.setdefault('_', []).append(tok)
    return out
