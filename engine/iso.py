"""Oracle written from ISO/IEC 18004:2015, independent of fast_qr.  Everything works on
ints and (where the name ends in _t or the argument may be a Term) on terms."""
from . import terms as T
from .terms import Term

LEVELS = ['L', 'M', 'Q', 'H']            # fast_qr's ECL discriminants 0..3
LEVEL_BITS = {'L': 1, 'M': 0, 'Q': 3, 'H': 2}   # 7.9.1 Table 12

# ISO Table 9: EC codewords per block and number of blocks (rows L, M, Q, H; index version-1)
EC_PER_BLOCK = {
    'L': [7, 10, 15, 20, 26, 18, 20, 24, 30, 18, 20, 24, 26, 30, 22, 24, 28, 30, 28, 28, 28, 28, 30, 30, 26, 28, 30, 30, 30, 30, 30, 30, 30, 30, 30, 30, 30, 30, 30, 30],
    'M': [10, 16, 26, 18, 24, 16, 18, 22, 22, 26, 30, 22, 22, 24, 24, 28, 28, 26, 26, 26, 26, 28, 28, 28, 28, 28, 28, 28, 28, 28, 28, 28, 28, 28, 28, 28, 28, 28, 28, 28],
    'Q': [13, 22, 18, 26, 18, 24, 18, 22, 20, 24, 28, 26, 24, 20, 30, 24, 28, 28, 26, 30, 28, 30, 30, 30, 30, 28, 30, 30, 30, 30, 30, 30, 30, 30, 30, 30, 30, 30, 30, 30],
    'H': [17, 28, 22, 16, 22, 28, 26, 26, 24, 28, 24, 28, 22, 24, 24, 30, 28, 28, 26, 28, 30, 24, 30, 30, 30, 30, 30, 30, 30, 30, 30, 30, 30, 30, 30, 30, 30, 30, 30, 30],
}
NUM_BLOCKS = {
    'L': [1, 1, 1, 1, 1, 2, 2, 2, 2, 4, 4, 4, 4, 4, 6, 6, 6, 6, 7, 8, 8, 9, 9, 10, 12, 12, 12, 13, 14, 15, 16, 17, 18, 19, 19, 20, 21, 22, 24, 25],
    'M': [1, 1, 1, 2, 2, 4, 4, 4, 5, 5, 5, 8, 9, 9, 10, 10, 11, 13, 14, 16, 17, 17, 18, 20, 21, 23, 25, 26, 28, 29, 31, 33, 35, 37, 38, 40, 43, 45, 47, 49],
    'Q': [1, 1, 2, 2, 4, 4, 6, 6, 8, 8, 8, 10, 12, 16, 12, 17, 16, 18, 21, 20, 23, 23, 25, 27, 29, 34, 34, 35, 38, 40, 43, 45, 48, 51, 53, 56, 59, 62, 65, 68],
    'H': [1, 1, 2, 4, 4, 4, 5, 6, 8, 8, 11, 11, 16, 16, 18, 16, 19, 21, 25, 25, 25, 34, 30, 32, 35, 37, 40, 42, 45, 48, 51, 54, 57, 60, 63, 66, 70, 74, 77, 81],
}

# region labels (fast_qr's ModuleType discriminants)
DATA, FINDER, ALIGN, TIMING, FORMAT, VERSION, DARK, SEPARATOR = 0, 2, 4, 6, 8, 10, 12, 14
LABEL_NAMES = {0: 'data', 2: 'finder', 4: 'alignment', 6: 'timing', 8: 'format', 10: 'version', 12: 'dark', 14: 'separator'}


def size(v):
    return 17 + 4 * v


def alignment_centres(v):
    """Annex E construction (not a copy of the table)"""
    if v == 1:
        return []
    n = v // 7 + 2
    step = 26 if v == 32 else (v * 4 + n * 2 + 1) // (n * 2 - 2) * 2
    s = size(v)
    pos = [s - 7 - i * step for i in range(n - 1)]
    return [6] + pos[::-1]


def bch_format(level, mask):
    data = (LEVEL_BITS[level] << 3) | mask
    rem = data
    for _ in range(10):
        rem = (rem << 1) ^ ((rem >> 9) * 0x537)
    return ((data << 10) | rem) ^ 0x5412


def bch_version(v):
    rem = v
    for _ in range(12):
        rem = (rem << 1) ^ ((rem >> 11) * 0x1F25)
    return (v << 12) | rem


def format_positions(v):
    """two lists of 15 (row, col), index = bit number (0 = least significant)"""
    n = size(v)
    a = []
    for i in range(6):
        a.append((i, 8))
    a.append((7, 8))
    a.append((8, 8))
    a.append((8, 7))
    for i in range(9, 15):
        a.append((8, 14 - i))
    b = []
    for i in range(8):
        b.append((8, n - 1 - i))
    for i in range(8, 15):
        b.append((n - 15 + i, 8))
    return a, b


def version_positions(v):
    """two lists of 18 (row, col), index = bit number"""
    n = size(v)
    a, b = [], []
    for i in range(18):
        p, q = n - 11 + i % 3, i // 3
        a.append((q, p))      # top-right block: row q, column p
        b.append((p, q))      # bottom-left block
    return a, b


_geom_cache = {}


def geometry(v):
    """-> dict with 'label' [row][col] region label, 'value' [row][col] fixed value or None,
    'order': list of (row, col) of data modules in placement order"""
    g = _geom_cache.get(v)
    if g is not None:
        return g
    n = size(v)
    label = [[DATA] * n for _ in range(n)]
    value = [[None] * n for _ in range(n)]

    def put(r, c, lab, val):
        label[r][c] = lab
        value[r][c] = val

    # timing (row 6 and column 6), dark on even coordinates
    for i in range(n):
        put(6, i, TIMING, 1 if i % 2 == 0 else 0)
        put(i, 6, TIMING, 1 if i % 2 == 0 else 0)
    # finder patterns + separators
    for (r0, c0) in ((3, 3), (3, n - 4), (n - 4, 3)):
        for dr in range(-4, 5):
            for dc in range(-4, 5):
                r, c = r0 + dr, c0 + dc
                if 0 <= r < n and 0 <= c < n:
                    d = max(abs(dr), abs(dc))
                    if d == 4:
                        put(r, c, SEPARATOR, 0)
                    else:
                        put(r, c, FINDER, 1 if d != 2 else 0)
    # alignment patterns
    cs = alignment_centres(v)
    k = len(cs)
    for i, r0 in enumerate(cs):
        for j, c0 in enumerate(cs):
            if (i == 0 and j == 0) or (i == 0 and j == k - 1) or (i == k - 1 and j == 0):
                continue
            for dr in range(-2, 3):
                for dc in range(-2, 3):
                    d = max(abs(dr), abs(dc))
                    put(r0 + dr, c0 + dc, ALIGN, 0 if d == 1 else 1)
    # format information areas (values depend on level and mask)
    fa, fb = format_positions(v)
    for (r, c) in fa + fb:
        put(r, c, FORMAT, None)
    # dark module
    put(n - 8, 8, DARK, 1)
    # version information
    if v >= 7:
        bits = bch_version(v)
        va, vb = version_positions(v)
        for i in range(18):
            for (r, c) in (va[i], vb[i]):
                put(r, c, VERSION, (bits >> i) & 1)
    # placement order (7.7.3)
    order = []
    right = n - 1
    while right >= 1:
        if right == 6:
            right = 5
        upward = ((right + 1) & 2) == 0
        for vert in range(n):
            r = n - 1 - vert if upward else vert
            for j in range(2):
                c = right - j
                if label[r][c] == DATA:
                    order.append((r, c))
        right -= 2
    g = {'n': n, 'label': label, 'value': value, 'order': order}
    _geom_cache[v] = g
    return g


def total_codewords(v):
    return len(geometry(v)['order']) // 8


def remainder_bits(v):
    return len(geometry(v)['order']) % 8


def block_layout(v, level):
    """-> (ec_per_block, [data length of each block in order])"""
    total = total_codewords(v)
    nb = NUM_BLOCKS[level][v - 1]
    ec = EC_PER_BLOCK[level][v - 1]
    short = total // nb
    n_short = nb - total % nb
    return ec, [short - ec if i < n_short else short + 1 - ec for i in range(nb)]


def data_codewords(v, level):
    return sum(block_layout(v, level)[1])


# ---------------------------------------------------------------- GF(256) / Reed-Solomon

def gf_mul(a, b):
    """shift-and-xor multiplication modulo x^8+x^4+x^3+x^2+1"""
    r = 0
    while b:
        if b & 1:
            r ^= a
        a <<= 1
        if a & 0x100:
            a ^= 0x11D
        b >>= 1
    return r


def gf_pow2(e):
    r = 1
    for _ in range(e):
        r = gf_mul(r, 2)
    return r


def generator(ec):
    """coefficients of prod_{i<ec} (x - alpha^i), highest degree first, monic"""
    g = [1]
    for i in range(ec):
        a = gf_pow2(i)
        ng = [0] * (len(g) + 1)
        for j, c in enumerate(g):
            ng[j] ^= c
            ng[j + 1] ^= gf_mul(c, a)
        g = ng
    return g


_mul_tables = {}


def mul_table(c):
    t = _mul_tables.get(c)
    if t is None:
        t = tuple(gf_mul(v, c) for v in range(256))
        _mul_tables[c] = t
    return t


def rs_remainder(data, ec):
    """LFSR remainder of data(x)*x^ec mod g(x); data: list of ints or 8-bit terms"""
    g = generator(ec)[1:]
    reg = [0] * ec
    for d in data:
        f = T.bxor(8, d, reg[0])
        reg = reg[1:] + [0]
        for j in range(ec):
            if type(f) is int:
                p = gf_mul(f, g[j])
            else:
                p = T.lut(mul_table(g[j]), f, 8)
            reg[j] = T.bxor(8, reg[j], p)
    return reg


def syndromes(codeword, ec):
    """S_i = c(alpha^i) for i < ec (Horner); codeword: ints or 8-bit terms"""
    out = []
    for i in range(ec):
        a = gf_pow2(i)
        acc = 0
        for c in codeword:
            if type(acc) is int:
                acc = gf_mul(acc, a)
            else:
                acc = T.lut(mul_table(a), acc, 8)
            acc = T.bxor(8, acc, c)
        out.append(acc)
    return out


def interleave(v, level, data):
    """final codeword sequence for the data codewords `data` (ints or terms)"""
    ec, lens = block_layout(v, level)
    blocks = []
    k = 0
    for L in lens:
        blocks.append(data[k:k + L])
        k += L
    assert k == len(data)
    ecs = [rs_remainder(b, ec) for b in blocks]
    out = []
    for i in range(max(lens)):
        for b in blocks:
            if i < len(b):
                out.append(b[i])
    for i in range(ec):
        for e in ecs:
            out.append(e[i])
    return out


def deinterleave(v, level, stream):
    """inverse of interleave -> (list of data blocks, list of ec blocks)"""
    ec, lens = block_layout(v, level)
    nb = len(lens)
    blocks = [[] for _ in lens]
    k = 0
    for i in range(max(lens)):
        for b in range(nb):
            if i < lens[b]:
                blocks[b].append(stream[k])
                k += 1
    ecs = [[] for _ in lens]
    for i in range(ec):
        for b in range(nb):
            ecs[b].append(stream[k])
            k += 1
    return blocks, ecs


# ---------------------------------------------------------------- masks (Table 10), i = row, j = column

def mask_cond(m, i, j):
    if m == 0:
        return (i + j) % 2 == 0
    if m == 1:
        return i % 2 == 0
    if m == 2:
        return j % 3 == 0
    if m == 3:
        return (i + j) % 3 == 0
    if m == 4:
        return (i // 2 + j // 3) % 2 == 0
    if m == 5:
        return (i * j) % 2 + (i * j) % 3 == 0
    if m == 6:
        return ((i * j) % 2 + (i * j) % 3) % 2 == 0
    if m == 7:
        return ((i + j) % 2 + (i * j) % 3) % 2 == 0
    raise ValueError(m)


def mask_bit_t(m, i, j):
    """mask condition as a width-1 value for an int or 8-bit term mask id (assumed < 8)"""
    if type(m) is int:
        return 1 if mask_cond(m, i, j) else 0
    bits = [1 if mask_cond(k, i, j) else 0 for k in range(8)]
    tbl = [bits[k % 8] for k in range(1 << m.w)]
    return T.lut(tbl, m, 1) if m.w <= 8 else None


# ---------------------------------------------------------------- 7.4 bit stream

ALNUM = '0123456789ABCDEFGHIJKLMNOPQRSTUVWXYZ $%*+-./:'
MODES = ['numeric', 'alphanumeric', 'byte']     # fast_qr's Mode discriminants 0..2
MODE_INDICATOR = {'numeric': 1, 'alphanumeric': 2, 'byte': 4}


def cci_bits(v, mode):
    cls = 0 if v <= 9 else (1 if v <= 26 else 2)
    return {'numeric': (10, 12, 14), 'alphanumeric': (9, 11, 13), 'byte': (8, 16, 16)}[mode][cls]


def payload_bits(mode, n):
    if mode == 'numeric':
        return 10 * (n // 3) + (0, 4, 7)[n % 3]
    if mode == 'alphanumeric':
        return 11 * (n // 2) + 6 * (n % 2)
    return 8 * n


def fits(v, level, mode, n):
    return 4 + cci_bits(v, mode) + payload_bits(mode, n) <= 8 * data_codewords(v, level)


def min_version(level, mode, n):
    for v in range(1, 41):
        if fits(v, level, mode, n):
            return v
    return None


def _bits_of(val, w, nbits):
    """most significant first list of `nbits` width-1 values of val (int or Term of width w)"""
    if type(val) is int:
        return [(val >> (nbits - 1 - k)) & 1 for k in range(nbits)]
    return [T.extract_bit(w, val, nbits - 1 - k) for k in range(nbits)]


def alnum_value_t(c):
    """45-set value of an 8-bit term / int (arbitrary outside the set)"""
    tbl = [ALNUM.index(chr(i)) if chr(i) in ALNUM else 0 for i in range(256)]
    if type(c) is int:
        return tbl[c]
    return T.lut(tbl, c, 16)


def encode_bits(v, level, mode, chars):
    """7.4: list of bits (ints / width-1 terms), exactly 8*data_codewords long; chars are ints or 8-bit terms"""
    n = len(chars)
    bits = _bits_of(MODE_INDICATOR[mode], 4, 4) + _bits_of(n, 16, cci_bits(v, mode))
    if mode == 'byte':
        for c in chars:
            bits += _bits_of(c, 8, 8)
    elif mode == 'numeric':
        def dig(c):
            if type(c) is int:
                return c - 0x30
            return T.zext(8, 16, T.sub(8, c, 0x30))
        i = 0
        while i + 3 <= n:
            val = T.add(16, T.add(16, T.mul(16, dig(chars[i]), 100), T.mul(16, dig(chars[i + 1]), 10)), dig(chars[i + 2]))
            bits += _bits_of(val, 16, 10)
            i += 3
        if n - i == 2:
            val = T.add(16, T.mul(16, dig(chars[i]), 10), dig(chars[i + 1]))
            bits += _bits_of(val, 16, 7)
        elif n - i == 1:
            bits += _bits_of(dig(chars[i]), 16, 4)
    else:
        i = 0
        while i + 2 <= n:
            val = T.add(16, T.mul(16, alnum_value_t(chars[i]), 45), alnum_value_t(chars[i + 1]))
            bits += _bits_of(val, 16, 11)
            i += 2
        if n - i == 1:
            bits += _bits_of(alnum_value_t(chars[i]), 16, 6)
    cap = 8 * data_codewords(v, level)
    assert len(bits) <= cap, 'payload does not fit'
    bits += [0] * min(4, cap - len(bits))
    bits += [0] * ((-len(bits)) % 8)
    pad = [0xEC, 0x11]
    k = 0
    while len(bits) < cap:
        bits += _bits_of(pad[k % 2], 8, 8)
        k += 1
    return bits


def pack_bytes(bits):
    out = []
    for i in range(0, len(bits), 8):
        b = 0
        for k in range(8):
            x = bits[i + k]
            if type(x) is int:
                b = T.bor(8, b, x << (7 - k))
            else:
                b = T.bor(8, b, T.shl(8, T.zext(1, 8, x), 7 - k))
        out.append(b)
    return out


def encode_codewords(v, level, mode, chars):
    return pack_bytes(encode_bits(v, level, mode, chars))


# ---------------------------------------------------------------- whole symbol (reference encoder on ints)

def build_matrix(v, level, mask, stream):
    """reference placement: n x n ints from the final codeword stream (ints)"""
    g = geometry(v)
    n = g['n']
    m = [[g['value'][r][c] for c in range(n)] for r in range(n)]
    for k, (r, c) in enumerate(g['order']):
        bit = (stream[k >> 3] >> (7 - (k & 7))) & 1 if (k >> 3) < len(stream) else 0
        m[r][c] = bit ^ (1 if mask_cond(mask, r, c) else 0)
    fbits = bch_format(level, mask)
    fa, fb = format_positions(v)
    for i in range(15):
        for (r, c) in (fa[i], fb[i]):
            m[r][c] = (fbits >> i) & 1
    return m


# ---------------------------------------------------------------- documented penalty (C11 statement)

def penalty_line(vals, labs):
    """(pattern, runs) of one row/column: 40 per 1011101 window of data modules,
    N-2 per maximal run of N>=5 equal consecutive data modules"""
    n = len(vals)
    patt = 0
    for i in range(n - 6):
        if all(labs[i + k] == DATA for k in range(7)) and [vals[i + k] for k in range(7)] == [1, 0, 1, 1, 1, 0, 1]:
            patt += 40
    runs = 0
    i = 0
    while i < n:
        if labs[i] != DATA:
            i += 1
            continue
        j = i
        while j + 1 < n and labs[j + 1] == DATA and vals[j + 1] == vals[i]:
            j += 1
        L = j - i + 1
        if L >= 5:
            runs += L - 2
        i = j + 1
    return patt, runs


def penalty(vals, labs):
    """documented penalty of an n x n candidate (ints)"""
    n = len(vals)
    tot = 0
    for r in range(n):
        p, q = penalty_line(vals[r], labs[r])
        tot += p + q
    for c in range(n):
        p, q = penalty_line([vals[r][c] for r in range(n)], [labs[r][c] for r in range(n)])
        tot += p + q
    for r in range(n - 1):
        for c in range(n - 1):
            if all(labs[r + a][c + b] == DATA for a in (0, 1) for b in (0, 1)):
                s = vals[r][c] + vals[r][c + 1] + vals[r + 1][c] + vals[r + 1][c + 1]
                if s in (0, 4):
                    tot += 3
    dark = sum(sum(row) for row in vals)
    pct = dark * 100 // (n * n)
    # 10 per 5% step away from 50%: 45..54 -> 0, 40..44 / 55..59 -> 10, ...
    tot += percent_score(pct)
    return tot


def percent_score(pct):
    if 45 <= pct <= 54:
        return 0
    if pct < 45:
        return 10 * ((44 - pct) // 5 + 1)
    return 10 * ((pct - 55) // 5 + 1)


# ---------------------------------------------------------------- reference decoder on terms (C01)

def decode_symbol(vals, v):
    """ISO reference read-out of an n x n matrix of width-1 values (ints/terms) for a known version v (1-based):
    format information -> (level index term, mask term, valid), unmasking, codeword read-out in placement order.
    Returns dict(valid, level, mask, codewords) where level/mask are 8-bit terms and codewords 8-bit terms."""
    g = geometry(v)
    n = g['n']
    fa, fb = format_positions(v)

    def word(pos):
        w = 0
        for i, (r, c) in enumerate(pos):
            b = vals[r][c]
            if type(b) is int:
                w = T.bor(16, w, b << i)
            else:
                w = T.bor(16, w, T.shl(16, T.zext(1, 16, b), i))
        return w
    f1 = word(fa)
    f2 = word(fb)
    valid = 0
    level = 0
    mask = 0
    for li, lv in enumerate(LEVELS):
        for m in range(8):
            hit = T.eq(16, f1, bch_format(lv, m))
            valid = T.lor(valid, hit)
            level = T.ite(8, hit, li, level)
            mask = T.ite(8, hit, m, mask)
    copies_agree = T.eq(16, f1, f2)
    bits = []
    for (r, c) in g['order']:
        mb = mask_bit_t(mask, r, c)
        bits.append(T.bxor(1, vals[r][c], mb))
    total = len(bits) // 8
    cws = pack_bytes(bits[:total * 8])
    return {'valid': valid, 'copies_agree': copies_agree, 'level': level, 'mask': mask, 'codewords': cws,
            'remainder': bits[total * 8:]}


def parse_segment(data_cw, v, mode, n_chars):
    """bits of the data codewords -> (mode indicator term, count term, list of character terms (8-bit), following 4 bits)"""
    bits = []
    for b in data_cw:
        bits += _bits_of(b, 8, 8)

    def num(lo, k, w=16):
        val = 0
        for i in range(k):
            x = bits[lo + i]
            sh = k - 1 - i
            if type(x) is int:
                val = T.bor(w, val, x << sh)
            else:
                val = T.bor(w, val, T.shl(w, T.zext(1, w, x), sh))
        return val
    ind = num(0, 4)
    cb = cci_bits(v, mode)
    count = num(4, cb)
    pos = 4 + cb
    groups = []
    if mode == 'byte':
        for i in range(n_chars):
            groups.append(('byte', num(pos, 8)))
            pos += 8
    elif mode == 'numeric':
        i = 0
        while i + 3 <= n_chars:
            groups.append(('d3', num(pos, 10)))
            pos += 10
            i += 3
        if n_chars - i == 2:
            groups.append(('d2', num(pos, 7)))
            pos += 7
        elif n_chars - i == 1:
            groups.append(('d1', num(pos, 4)))
            pos += 4
    else:
        i = 0
        while i + 2 <= n_chars:
            groups.append(('a2', num(pos, 11)))
            pos += 11
            i += 2
        if n_chars - i == 1:
            groups.append(('a1', num(pos, 6)))
            pos += 6
    after = bits[pos:pos + 4]
    return ind, count, groups, after, pos


# ---------------------------------------------------------------- documented penalty on terms (C11)

def penalty_line_t(vals, labs):
    """(pattern, runs) as 32-bit terms for one row/column; vals: width-1 ints/terms, labs: concrete labels"""
    n = len(vals)
    patt = 0
    PAT = [1, 0, 1, 1, 1, 0, 1]
    for i in range(n - 6):
        if all(labs[i + k] == DATA for k in range(7)):
            hit = 1
            for k in range(7):
                hit = T.land(hit, T.eq(1, vals[i + k], PAT[k]))
            patt = T.add(32, patt, T.ite(32, hit, 40, 0))
    runs = 0
    i = 0
    while i < n:
        if labs[i] != DATA:
            i += 1
            continue
        j = i
        while j + 1 < n and labs[j + 1] == DATA:
            j += 1
        # segment i..j of data modules: run-length recurrence
        length = 1
        for k in range(i, j + 1):
            if k > i:
                same = T.eq(1, vals[k], vals[k - 1])
                length = T.ite(8, same, T.add(8, length, 1), 1)
            ends = 1 if k == j else T.ne(1, vals[k + 1], vals[k])
            big = T.ule(8, 5, length)
            pen = T.ite(32, T.land(ends, big), T.zext(8, 32, T.sub(8, length, 2)), 0)
            runs = T.add(32, runs, pen)
        i = j + 1
    return patt, runs


def squares_t(vals, labs):
    n = len(vals)
    tot = 0
    for r in range(n - 1):
        for c in range(n - 1):
            if all(labs[r + a][c + b] == DATA for a in (0, 1) for b in (0, 1)):
                e = T.land(T.land(T.eq(1, vals[r][c], vals[r][c + 1]), T.eq(1, vals[r][c], vals[r + 1][c])),
                           T.eq(1, vals[r][c], vals[r + 1][c + 1]))
                tot = T.add(32, tot, T.ite(32, e, 3, 0))
    return tot


def dark_t(vals):
    """dark-ratio term: 10 per 5% step of floor(100*dark/n^2) away from 50%; the count is accumulated row-major"""
    n = len(vals)
    cnt = 0
    for r in range(n):
        for c in range(n):
            x = vals[r][c]
            cnt = T.add(64, cnt, x if type(x) is int else T.zext(1, 64, x))
    pct = T.udiv(64, T.mul(64, cnt, 100), n * n)
    return T.zext(8, 32, T.select_const([percent_score(p) for p in range(100)], 8, pct, 64))


def squares_conds(vals, labs):
    """row-major list of (r, c, condition) for every 2x2 block of data modules: all four equal"""
    n = len(vals)
    out = []
    for r in range(n - 1):
        for c in range(n - 1):
            if all(labs[r + a][c + b] == DATA for a in (0, 1) for b in (0, 1)):
                e = T.land(T.land(T.eq(1, vals[r][c], vals[r][c + 1]), T.eq(1, vals[r][c], vals[r + 1][c])),
                           T.eq(1, vals[r][c], vals[r + 1][c + 1]))
                out.append((r, c, e))
    return out
