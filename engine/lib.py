"""Models of the core/alloc functions fast_qr calls (DESIGN.md 2.3.4).  Each model is
written from the documented semantics of the library function; every model that a run
actually used is listed in that run's evidence."""
import re
from . import terms as T
from .terms import Term
from .mirsym import (L, Ptr, SliceRef, FnRef, Closure, Guarded, NumPiece, Float, UNIT, DEAD, Unsupported,
                     ConcretePanic, strip_generics, OpaqueSlice)
from .mirparse import parse_type

M64 = (1 << 64) - 1


def is_scalar(v):
    return type(v) is int or type(v) is Term


class Library:
    def __init__(self, interp):
        self.I = interp
        self.cache = {}
        self.table = []
        self._register()

    # ------------------------------------------------------------ helpers
    def some(self, v):
        return self.I.mk([1, v], 'enum')

    def none(self):
        return self.I.mk([0], 'enum')

    def ok(self, v):
        return self.I.mk([0, v], 'enum')

    def err(self, v):
        return self.I.mk([1, v], 'enum')

    def payload(self, o, dv, i=0):
        """field i of variant dv of an enum value in either representation"""
        if o.tag == 'symenum':
            f = o[1].get(dv)
            if f is None:
                raise Unsupported('symbolic enum lacks variant %r' % dv)
            return f[i]
        return o[1 + i]

    def deref(self, p):
        if type(p) is Ptr:
            return p.c[p.k]
        raise Unsupported('deref of %r in library model' % (p,))

    def as_slice(self, v):
        """&[T] / &Vec<T> / &[T;N] / &String -> SliceRef"""
        if type(v) is SliceRef:
            return v
        if type(v) is Ptr:
            x = v.c[v.k]
            if type(x) is L:
                if x.tag == 'Vec':
                    return SliceRef(x[0], 0, len(x[0]))
                if x.tag == 'String':
                    return SliceRef(x[0], 0, len(x[0]), True)
                return SliceRef(x, 0, len(x))
            if type(x) is SliceRef:
                return x
            if type(x) is Ptr:
                return self.as_slice(x)
        if type(v) is L and v.tag == 'Vec':
            return SliceRef(v[0], 0, len(v[0]))
        raise Unsupported('as_slice of %r' % (v,))

    def concrete(self, v, what):
        if type(v) is not int:
            raise Unsupported('symbolic %s in library model' % what)
        return v

    # ------------------------------------------------------------ iterators
    def it_next(self, it):
        """-> (True, value) / (False, None); `it` is the iterator object (L)"""
        I = self.I
        tag = it.tag
        if len(it) and type(it[0]).__name__ == 'Poison':
            raise Unsupported(it[0].why)
        if tag == 'Range':
            s, e = it[0], it[1]
            if type(s) is not int or type(e) is not int:
                raise Unsupported('range with symbolic bounds')
            if s < e:
                I.write(it, 0, s + 1)
                return True, s
            return False, None
        if tag == 'RangeIncl':
            s, e, done = it
            if type(s) is not int or type(e) is not int or type(done) is not int:
                raise Unsupported('range with symbolic bounds')
            if done or s > e:
                return False, None
            if s < e:
                I.write(it, 0, s + 1)
            else:
                I.write(it, 2, 1)
            return True, s
        if tag == 'StepBy':
            inner, step, first = it
            if first:
                I.write(it, 2, 0)
                return self.it_next(inner)
            for _ in range(step - 1):
                ok, _v = self.it_next(inner)
                if not ok:
                    return False, None
            return self.it_next(inner)
        if tag == 'Rev':
            return self.it_next_back(it[0])
        if tag == 'Chain':
            a, b = it
            if a is not None:
                ok, v = self.it_next(a)
                if ok:
                    return True, v
                I.write(it, 0, None)
            if b is not None:
                return self.it_next(b)
            return False, None
        if tag == 'Enumerate':
            ok, v = self.it_next(it[0])
            if not ok:
                return False, None
            n = it[1]
            I.write(it, 1, n + 1)
            return True, I.mk([n, v])
        if tag == 'Skip':
            n = it[1]
            if n:
                I.write(it, 1, 0)
                for _ in range(n):
                    ok, _v = self.it_next(it[0])
                    if not ok:
                        return False, None
            return self.it_next(it[0])
        if tag == 'SliceIter':
            sl, f, b = it
            if f >= b:
                return False, None
            I.write(it, 1, f + 1)
            return True, Ptr(sl.c, sl.start + f)
        if tag == 'ArrIter':
            arr, pos = it
            if pos >= len(arr):
                return False, None
            I.write(it, 1, pos + 1)
            return True, arr[pos]
        if tag == 'ChunksExact':
            sl, pos, n = it
            if pos + n > sl.len:
                return False, None
            I.write(it, 1, pos + n)
            return True, SliceRef(sl.c, sl.start + pos, n, sl.is_str)
        if tag == 'Map':
            ok, v = self.it_next(it[0])
            if not ok:
                return False, None
            r = I.call_closure(None, it[1], [I.mk([v])] if False else [v])
            return True, r
        if tag == 'Zip':
            ok, a = self.it_next(it[0])
            if not ok:
                return False, None
            ok, b = self.it_next(it[1])
            if not ok:
                return False, None
            return True, I.mk([a, b])
        if tag == 'Take':
            n = it[1]
            if n == 0:
                return False, None
            I.write(it, 1, n - 1)
            return self.it_next(it[0])
        if tag == 'Copied':
            ok, v = self.it_next(it[0])
            if not ok:
                return False, None
            v = self.deref(v)
            return True, (I.copy_val(v) if type(v) is L else v)
        if tag == 'Chunks':
            sl, pos, n = it
            if pos >= sl.len:
                return False, None
            k = min(n, sl.len - pos)
            I.write(it, 1, pos + k)
            return True, SliceRef(sl.c, sl.start + pos, k, sl.is_str)
        if tag == 'Windows':
            sl, pos, n = it
            if pos + n > sl.len:
                return False, None
            I.write(it, 1, pos + 1)
            return True, SliceRef(sl.c, sl.start + pos, n, sl.is_str)
        if tag == 'Filter':
            while True:
                ok, v = self.it_next(it[0])
                if not ok:
                    return False, None
                keep = I.call_closure(None, it[1], [Ptr(I.mk([v]), 0)])
                if type(keep) is not int:
                    raise Unsupported('filter with a symbolic predicate outside count()')
                if keep:
                    return True, v
        if tag == 'BiRange':
            raise Unsupported('BiRange is a crate type')
        raise Unsupported('iterator next on %s' % tag)

    def it_next_back(self, it):
        I = self.I
        tag = it.tag
        if tag == 'Range':
            s, e = it[0], it[1]
            if type(s) is not int or type(e) is not int:
                raise Unsupported('range with symbolic bounds')
            if s < e:
                I.write(it, 1, e - 1)
                return True, e - 1
            return False, None
        if tag == 'RangeIncl':
            s, e, done = it
            if type(s) is not int or type(e) is not int or type(done) is not int:
                raise Unsupported('range with symbolic bounds')
            if done or s > e:
                return False, None
            if s < e:
                I.write(it, 1, e - 1)
            else:
                I.write(it, 2, 1)
            return True, e
        if tag == 'Chain':
            a, b = it
            if b is not None:
                ok, v = self.it_next_back(b)
                if ok:
                    return True, v
                I.write(it, 1, None)
            if a is not None:
                return self.it_next_back(a)
            return False, None
        if tag == 'Rev':
            return self.it_next(it[0])
        if tag == 'SliceIter':
            sl, f, b = it
            if f >= b:
                return False, None
            I.write(it, 2, b - 1)
            return True, Ptr(sl.c, sl.start + b - 1)
        raise Unsupported('iterator next_back on %s' % tag)

    def opt(self, r):
        ok, v = r
        return self.some(v) if ok else self.none()

    # ------------------------------------------------------------ indexing
    def index(self, base, idx, mutable):
        """base: Ptr to array/Vec, or SliceRef;  idx: usize or range object"""
        I = self.I
        if type(base) is Ptr and type(base.c[base.k]) is OpaqueSlice:
            base = base.c[base.k]
        if type(base) is OpaqueSlice:
            return self.index_opaque(base, idx)
        sl = self.as_slice(base)
        if type(idx) is L and idx.tag == 'RangeFull':
            return SliceRef(sl.c, sl.start, sl.len, sl.is_str)
        if type(idx) is L and idx.tag in ('Range', 'RangeTo', 'RangeFrom', 'RangeIncl'):
            if idx.tag == 'Range':
                s, e = idx[0], idx[1]
            elif idx.tag == 'RangeTo':
                s, e = 0, idx[0]
            elif idx.tag == 'RangeFrom':
                s, e = idx[0], sl.len
            else:
                s, e = idx[0], idx[1] + 1
            if type(s) is not int or type(e) is not int:
                raise Unsupported('slice range with symbolic bounds')
            if s > e:
                return I.panic(None, 'slice index starts at %d but ends at %d' % (s, e))
            if e > sl.len:
                return I.panic(None, 'range end index %d out of range for slice of length %d' % (e, sl.len))
            return SliceRef(sl.c, sl.start + s, e - s, sl.is_str)
        if type(idx) is int:
            if idx >= sl.len:
                return I.panic(None, 'index out of bounds: the len is %d but the index is %d' % (sl.len, idx))
            return Ptr(sl.c, sl.start + idx)
        if type(idx) is Term:
            # symbolic index: obligation idx < len, value = select
            c = T.ult(64, idx, sl.len)
            if type(c) is int:
                if not c:
                    return I.panic(None, 'index out of bounds')
            else:
                from .mirsym import Obligation
                I.obligations.append(Obligation(tuple(I.pc), c, 'bounds', 'library index', 'index out of bounds'))
                I.facts.append(T.implies(T.and_many(I.pc), c))
            if mutable:
                raise Unsupported('mutable symbolic index')
            elems = sl.items()
            if all(is_scalar(e) for e in elems):
                w = max([e.w for e in elems if type(e) is Term] + [8])
                cell = I.mk([T.select_terms(elems, w, idx, 64)])
                return Ptr(cell, 0)
            raise Unsupported('symbolic index into non-scalar elements')
        raise Unsupported('index with %r' % (idx,))

    def index_opaque(self, base, idx):
        """range index into a string / slice of unknown content and symbolic length: bounds obligations, and for a str the
        char-boundary requirement of str slicing, which nothing guarantees for an arbitrary string at a fixed byte offset"""
        I = self.I
        from .mirsym import Obligation
        if not (type(idx) is L and idx.tag in ('Range', 'RangeTo', 'RangeFrom', 'RangeFull', 'RangeIncl')):
            raise Unsupported('element index into an opaque slice')
        n = base.length
        if idx.tag == 'RangeFull':
            return base
        if idx.tag == 'Range':
            s, e = idx[0], idx[1]
        elif idx.tag == 'RangeTo':
            s, e = 0, idx[0]
        elif idx.tag == 'RangeFrom':
            s, e = idx[0], n
        else:
            s, e = idx[0], T.add(64, idx[1], 1)

        def oblige(c, msg):
            if type(c) is int:
                if not c:
                    I.panic(None, msg)
                return
            I.obligations.append(Obligation(tuple(I.pc), c, 'bounds', 'str/slice range index', msg))
            I.facts.append(T.implies(T.and_many(I.pc), c))
        oblige(T.lnot(T.ult(64, e, s)), 'slice index starts after its end')
        oblige(T.lnot(T.ult(64, n, e)), 'range end index out of range for slice')
        if base.is_str:
            for pos in (s, e):
                if type(pos) is int and pos == 0:
                    continue
                if pos is n:
                    continue
                nm = 'char_boundary_%s_at_%s' % (base.ident, pos if type(pos) is int else 'sym%d' % I.alloc)
                b = T.var(nm, 1)
                # at the very end of the string every offset is a boundary
                oblige(T.lor(b, T.eq(64, pos, n)), 'byte index is not a char boundary')
        return OpaqueSlice('%s[%s..%s]' % (base.ident, s if type(s) is int else '?', e if type(e) is int else '?'), T.sub(64, e, s), base.is_str)

    # ------------------------------------------------------------ dispatch
    def call(self, fr, name, args, arg_ops):
        h = self.cache.get(name)
        if h is None:
            h = self._lookup(name)
            self.cache[name] = h
        self.I.lib_used[h[1]] = self.I.lib_used.get(h[1], 0) + 1
        return h[0](fr, name, args, arg_ops)

    def _lookup(self, name):
        n = name.replace("::<'_>", '')
        n = re.sub(r"'_,\s*", '', n)
        n = n.replace("<'_>", '')
        for rx, fn, label in self.table:
            if rx.search(n):
                return fn, label
        raise Unsupported('no model for library function `%s`' % name)

    def reg(self, pattern, label=None):
        def deco(fn):
            self.table.append((re.compile(pattern), fn, label or fn.__name__))
            return fn
        return deco

    def named_const(self, name):
        m = re.match(r'^<std::mem::MaybeUninit<\[(\w+); (\d+)\]> as std::mem::SizedTypeProperties>::(ALIGN|SIZE)$', name)
        if m:
            ty = parse_type(m.group(1))
            sz = max(1, (ty.bits or 8) // 8)
            return sz if m.group(3) == 'ALIGN' else sz * int(m.group(2))
        m = re.match(r'^<std::mem::MaybeUninit<\[(.*); (\d+)\]> as std::mem::SizedTypeProperties>::(ALIGN|SIZE)$', name)
        if m:
            # element type without a known size (fn pointers, references, crate types) in a vec![..] literal: the constant
            # is only the layout handed to the allocation, which the vec! model does not observe
            return 8 if m.group(3) == 'ALIGN' else 8 * int(m.group(2))
        raise Unsupported('unknown constant %s' % name)

    # ------------------------------------------------------------ registration
    def _register(self):
        I = self.I
        reg = self.reg

        # ---- panics
        @reg(r'^(core::panicking::|std::rt::)?(panic_fmt|panic|panic_explicit|panic_display|unreachable_display|panic_bounds_check|panic_nounwind|unwrap_failed|expect_failed|begin_panic)\b', 'panic')
        def _panic(fr, name, args, ops):
            msg = 'panic'
            if args and type(args[0]) is L and args[0].tag == 'Arguments':
                msg = self.render_debug(args[0])
            elif args and type(args[0]) is SliceRef and args[0].is_str:
                msg = ''.join(chr(c) for c in args[0].items() if type(c) is int)
            return I.panic(fr, msg)

        @reg(r'^core::panicking::assert_failed', 'assert_failed')
        def _af(fr, name, args, ops):
            return I.panic(fr, 'assertion `left == right` failed')

        # ---- identity-like
        @reg(r'^must_use::|^std::hint::must_use|^core::hint::must_use', 'must_use')
        def _mu(fr, name, args, ops):
            return args[0]

        @reg(r'^(std|core)::mem::drop|^drop::', 'drop')
        def _drop(fr, name, args, ops):
            return UNIT

        # ---- IntoIterator
        @reg(r'^<.* as IntoIterator>::into_iter$', 'IntoIterator::into_iter')
        def _into_iter(fr, name, args, ops):
            v = args[0]
            if type(v) is L and v.tag in ('Range', 'RangeIncl', 'StepBy', 'Rev', 'Chain', 'Enumerate', 'Skip',
                                          'SliceIter', 'ArrIter', 'ChunksExact', 'Map', 'Filter', 'Zip', 'Take', 'Copied',
                                          'Chunks', 'Windows'):
                return v
            if type(v) is L and v.tag == 'enum' and False:
                pass
            if type(v) is L and v.tag is None:
                return I.mk([v, 0], 'ArrIter')
            if type(v) is L and v.tag == 'Vec':
                return I.mk([v[0], 0], 'ArrIter')
            if type(v) is SliceRef or type(v) is Ptr:
                sl = self.as_slice(v)
                return I.mk([sl, 0, sl.len], 'SliceIter')
            if type(v) is L:
                # crate iterator types (BiRange) are their own IntoIterator
                return v
            raise Unsupported('into_iter of %r' % (v,))

        @reg(r'^<.* as Iterator>::next$', 'Iterator::next')
        def _next(fr, name, args, ops):
            it = self.deref(args[0])
            return self.opt(self.it_next(it))

        @reg(r'^<.* as DoubleEndedIterator>::next_back$', 'DoubleEndedIterator::next_back')
        def _next_back(fr, name, args, ops):
            it = self.deref(args[0])
            return self.opt(self.it_next_back(it))

        @reg(r'^<.* as Iterator>::step_by$', 'Iterator::step_by')
        def _step_by(fr, name, args, ops):
            n = self.concrete(args[1], 'step')
            if n == 0:
                return I.panic(fr, 'assertion failed: step != 0')
            return I.mk([args[0], n, 1], 'StepBy')

        @reg(r'^<.* as Iterator>::rev$', 'Iterator::rev')
        def _rev(fr, name, args, ops):
            return I.mk([args[0]], 'Rev')

        @reg(r'^<.* as Iterator>::chain::', 'Iterator::chain')
        def _chain(fr, name, args, ops):
            return I.mk([args[0], args[1]], 'Chain')

        @reg(r'^<.* as Iterator>::enumerate$', 'Iterator::enumerate')
        def _enum(fr, name, args, ops):
            return I.mk([args[0], 0], 'Enumerate')

        @reg(r'^<.* as Iterator>::skip$', 'Iterator::skip')
        def _skip(fr, name, args, ops):
            return I.mk([args[0], self.concrete(args[1], 'skip count')], 'Skip')

        @reg(r'^<.* as Iterator>::map::', 'Iterator::map')
        def _map(fr, name, args, ops):
            return I.mk([args[0], args[1]], 'Map')

        @reg(r'^<.* as Iterator>::filter::', 'Iterator::filter')
        def _filter(fr, name, args, ops):
            return I.mk([args[0], args[1]], 'Filter')

        @reg(r'^<.* as Iterator>::count$', 'Iterator::count')
        def _count(fr, name, args, ops):
            it = args[0]
            if it.tag == 'Filter':
                inner, clos = it
                acc = 0
                while True:
                    ok, v = self.it_next(inner)
                    if not ok:
                        break
                    cell = I.mk([v])
                    c = I.call_closure(fr, clos, [Ptr(cell, 0)])
                    acc = T.add(64, acc, T.zext(1, 64, c) if type(c) is Term else c)
                return acc
            n = 0
            while self.it_next(it)[0]:
                n += 1
            return n

        @reg(r'^<.* as Iterator>::collect::<Option<Vec<', 'Iterator::collect::<Option<Vec>> (None as soon as one item is None)')
        def _collect_opt(fr, name, args, ops):
            it = args[0]
            vals = []
            all_some = 1
            while True:
                ok, v = self.it_next(it)
                if not ok:
                    break
                if v is DEAD:
                    return DEAD
                # v: Option<T> in either representation
                d = v[0]
                some = T.eq(64, d, 1)
                all_some = T.land(all_some, some)
                vals.append(self.payload(v, 1) if (type(d) is not int or d == 1) else 0)
                if type(all_some) is int and not all_some:
                    break
            if type(all_some) is int:
                if not all_some:
                    return self.none()
                return self.some(I.mk([I.mk(vals, 'buf'), len(vals)], 'Vec'))
            return I.mk([T.zext(1, 64, all_some), I.mk([I.mk(vals, 'buf'), len(vals)], 'Vec')], 'enum')

        @reg(r'^Result::<.*>::ok$', 'Result::ok')
        def _res_ok(fr, name, args, ops):
            o = args[0]
            d = o[0]
            if type(d) is int:
                return self.some(o[1]) if d == 0 else self.none()
            if o.tag == 'symenum':
                okf = o[1].get(0)
                vm = {0: I.mk([])}
                if okf is not None:
                    vm[1] = I.mk([okf[0]])
                return I.mk([T.zext(1, 64, T.eq(64, d, 0)), vm], 'symenum')
            return I.mk([T.zext(1, 64, T.eq(64, d, 0)), o[1]], 'enum')

        @reg(r'^Option::<.*>::and_then::<', 'Option::and_then')
        def _and_then(fr, name, args, ops):
            o, f = args
            d = o[0]
            if type(d) is int:
                if d == 0:
                    return self.none()
                return I.call_closure(fr, f, [o[1]])
            # case split: the closure runs under "is Some"; None stays None
            is_some = T.eq(64, d, 1)
            I.pc.append(is_some)
            try:
                r = I.call_closure(fr, f, [self.payload(o, 1)])
            finally:
                I.pc.pop()
            if r is DEAD:
                raise Unsupported('closure of and_then diverges under a symbolic Option')
            m_ = re.match(r'^Option::<.*>::and_then::<(.*?), ', name)
            ty = None
            if m_:
                try:
                    ty = parse_type('Option<%s>' % m_.group(1))
                except Exception:
                    ty = None
            return I.merge(is_some, r, self.none(), ty)

        @reg(r'^Option::<.*>::unwrap_or_default$', 'Option::unwrap_or_default')
        def _unwrap_or_default(fr, name, args, ops):
            o = args[0]
            m_ = re.match(r'^Option::<(.*)>::unwrap_or_default$', name)
            inner = m_.group(1)
            if inner.startswith('Vec<'):
                default = I.mk([I.mk([], 'buf'), 0], 'Vec')
            elif inner == 'String':
                default = self.new_string([])
            else:
                raise Unsupported('unwrap_or_default for %s' % inner)
            d = o[0]
            if type(d) is int:
                return o[1] if d == 1 else default
            return I.merge(T.eq(64, d, 1), self.payload(o, 1), default, None)

        @reg(r'^<.* as Iterator>::collect::<Vec<', 'Iterator::collect::<Vec>')
        def _collect(fr, name, args, ops):
            it = args[0]
            out = []
            while True:
                ok, v = self.it_next(it)
                if not ok:
                    break
                if v is DEAD:
                    return DEAD
                out.append(v)
            buf = I.mk(out, 'buf')
            return I.mk([buf, len(out)], 'Vec')

        @reg(r'^RangeInclusive::<\w+>::new$|^std::ops::RangeInclusive::<\w+>::new$', 'RangeInclusive::new')
        def _ri_new(fr, name, args, ops):
            return I.mk([args[0], args[1], 0], 'RangeIncl')

        # ---- slices
        @reg(r'^core::slice::<impl \[.*\]>::iter$|^core::slice::<impl \[.*\]>::iter_mut$', 'slice::iter')
        def _sl_iter(fr, name, args, ops):
            sl = self.as_slice(args[0])
            return I.mk([sl, 0, sl.len], 'SliceIter')

        @reg(r'^core::slice::<impl \[.*\]>::chunks_exact$', 'slice::chunks_exact')
        def _chunks(fr, name, args, ops):
            sl = self.as_slice(args[0])
            n = self.concrete(args[1], 'chunk size')
            if n == 0:
                return I.panic(fr, 'chunk size must be non-zero')
            return I.mk([sl, 0, n], 'ChunksExact')

        @reg(r'^core::slice::<impl \[.*\]>::last$', 'slice::last')
        def _last(fr, name, args, ops):
            sl = self.as_slice(args[0])
            if sl.len == 0:
                return self.none()
            return self.some(Ptr(sl.c, sl.start + sl.len - 1))

        @reg(r'^core::slice::<impl \[.*\]>::len$', 'slice::len')
        def _sl_len(fr, name, args, ops):
            if type(args[0]) is OpaqueSlice:
                return args[0].length
            return self.as_slice(args[0]).len

        @reg(r'^core::slice::<impl \[.*\]>::copy_from_slice$', 'slice::copy_from_slice')
        def _cfs(fr, name, args, ops):
            d = self.as_slice(args[0])
            s = self.as_slice(args[1])
            if d.len != s.len:
                return I.panic(fr, 'copy_from_slice: source slice length (%d) does not match destination slice length (%d)' % (s.len, d.len))
            vals = s.items()
            for i, v in enumerate(vals):
                I.write(d.c, d.start + i, I.copy_val(v))
            return UNIT

        @reg(r'^std::slice::<impl \[.*\]>::to_vec$|^alloc::slice::<impl \[.*\]>::to_vec$', 'slice::to_vec')
        def _to_vec(fr, name, args, ops):
            s = self.as_slice(args[0])
            buf = I.mk([I.copy_val(v) for v in s.items()], 'buf')
            return I.mk([buf, len(buf)], 'Vec')

        @reg(r'^<\[.*\] as Index(Mut)?<.*>>::index(_mut)?$|^<Vec<.*> as Index(Mut)?<.*>>::index(_mut)?$', 'Index::index (array/slice/Vec)')
        def _index(fr, name, args, ops):
            return self.index(args[0], args[1], 'index_mut' in name)

        @reg(r'^<(str|String) as Index(Mut)?<(std::ops::|core::ops::)?Range.*>>::index(_mut)?$', 'str range index (byte offsets)')
        def _str_index(fr, name, args, ops):
            base = args[0]
            if type(base) is Ptr and type(base.c[base.k]) is L and base.c[base.k].tag == 'String':
                b_ = base.c[base.k][0]
                base = SliceRef(b_, 0, len(b_), True)
            if type(base) is SliceRef:
                items = base.items()
                if items and all(type(x) is int for x in items) and any(x >= 0x80 for x in items):
                    # concrete text held as code points: translate the byte offsets (they must be char boundaries)
                    idx = args[1]
                    offs = [0]
                    for x in items:
                        offs.append(offs[-1] + len(chr(x).encode('utf-8')))
                    total = offs[-1]
                    if type(idx) is L and idx.tag in ('Range', 'RangeTo', 'RangeFrom'):
                        s_, e_ = (idx[0], idx[1]) if idx.tag == 'Range' else ((0, idx[0]) if idx.tag == 'RangeTo' else (idx[0], total))
                        if type(s_) is int and type(e_) is int:
                            if e_ > total:
                                return I.panic(fr, 'byte index %d is out of bounds' % e_)
                            if s_ > e_:
                                return I.panic(fr, 'begin <= end (%d <= %d)' % (s_, e_))
                            if s_ not in offs or e_ not in offs:
                                return I.panic(fr, 'byte index is not a char boundary')
                            a_, b_ = offs.index(s_), offs.index(e_)
                            return SliceRef(base.c, base.start + a_, b_ - a_, True)
                    raise Unsupported('slicing of concrete non-ASCII text with this index form')
                if any(type(x) is int and x >= 0x80 for x in items) or any(type(x) not in (int, Term) for x in items):
                    raise Unsupported('byte-offset slicing of a string with concrete non-ASCII or conditional pieces')
                if any(self.may_be_non_ascii(x) for x in items):
                    # symbolic bytes: str slicing panics unless both ends are char boundaries
                    idx = args[1]
                    from .mirsym import Obligation
                    ends = []
                    if type(idx) is L and idx.tag == 'Range':
                        ends = [idx[0], idx[1]]
                    elif type(idx) is L and idx.tag == 'RangeTo':
                        ends = [idx[0]]
                    elif type(idx) is L and idx.tag == 'RangeFrom':
                        ends = [idx[0]]
                    elif type(idx) is L and idx.tag == 'RangeIncl':
                        ends = [idx[0], idx[1] + 1 if type(idx[1]) is int else idx[1]]
                    for e_ in ends:
                        if type(e_) is not int:
                            raise Unsupported('str slicing at a symbolic offset')
                        if e_ > len(items):
                            continue            # reported as out of range by index()
                        c = self.char_boundary(items, e_)
                        if type(c) is int:
                            if not c:
                                return I.panic(fr, 'byte index %d is not a char boundary' % e_)
                        else:
                            I.obligations.append(Obligation(tuple(I.pc), c, 'bounds', 'str range index', 'byte index %d is not a char boundary' % e_))
                            I.facts.append(T.implies(T.and_many(I.pc), c))
            return self.index(base, args[1], False)

        @reg(r'^<Vec<.*> as Deref(Mut)?>::deref(_mut)?$', 'Vec::deref')
        def _vec_deref(fr, name, args, ops):
            return self.as_slice(args[0])

        # ---- Vec
        @reg(r'^Vec::<.*>::new$', 'Vec::new')
        def _vec_new(fr, name, args, ops):
            return I.mk([I.mk([], 'buf'), 0], 'Vec')

        @reg(r'^Vec::<.*>::with_capacity$', 'Vec::with_capacity')
        def _vec_wc(fr, name, args, ops):
            return I.mk([I.mk([], 'buf'), self.concrete(args[0], 'capacity')], 'Vec')

        @reg(r'^std::vec::from_elem::<', 'vec::from_elem')
        def _from_elem(fr, name, args, ops):
            n = self.concrete(args[1], 'vec length')
            e = args[0]
            if type(e) is L:
                buf = I.mk([I.copy_val(e) for _ in range(n)], 'buf')
            else:
                buf = I.mk([e] * n, 'buf')
                m_ = re.match(r'^std::vec::from_elem::<(u8|u16|u32|u64|usize|bool)>$', name)
                if m_:
                    buf.ew = parse_type(m_.group(1)).bits
            return I.mk([buf, n], 'Vec')

        def seq_len(items):
            if Guarded not in map(type, items):
                return len(items)
            plain, n = 0, 0
            for it in items:
                if type(it) is Guarded:
                    n = T.add(64, n, T.ite(64, it.cond, seq_len(it.items), 0))
                else:
                    plain += 1
            return T.add(64, n, plain) if type(n) is not int else n + plain
        self.seq_len = seq_len

        @reg(r'^Vec::<.*>::len$', 'Vec::len')
        def _vec_len(fr, name, args, ops):
            return seq_len(self.deref(args[0])[0])

        @reg(r'^Vec::<.*>::is_empty$', 'Vec::is_empty')
        def _vec_is_empty(fr, name, args, ops):
            return 1 if len(self.deref(args[0])[0]) == 0 else 0

        @reg(r'^Vec::<.*>::capacity$', 'Vec::capacity')
        def _vec_cap(fr, name, args, ops):
            v = self.deref(args[0])
            return max(v[1], len(v[0]))

        @reg(r'^Vec::<.*>::push$', 'Vec::push')
        def _vec_push(fr, name, args, ops):
            v = self.deref(args[0])
            I.structural(v[0])
            v[0].append(args[1])
            return UNIT

        @reg(r'^Vec::<.*>::resize$', 'Vec::resize')
        def _vec_resize(fr, name, args, ops):
            v = self.deref(args[0])
            n = self.concrete(args[1], 'resize length')
            buf = v[0]
            I.structural(buf)
            if n < len(buf):
                del buf[n:]
            else:
                buf.extend([args[2]] * (n - len(buf)))
            return UNIT

        @reg(r'^<Vec<.*> as Clone>::clone$|^<\[.*\] as Clone>::clone$|^<Option<.*> as Clone>::clone$|^<String as Clone>::clone$', 'Clone::clone (deep copy)')
        def _clone(fr, name, args, ops):
            return I.copy_val(self.deref(args[0]))

        # ---- Option / Result
        @reg(r'^Option::<.*>::unwrap_or$|^Result::<.*>::unwrap_or$', 'unwrap_or')
        def _unwrap_or(fr, name, args, ops):
            o, d = args
            want = 1 if name.startswith('Option') else 0
            disc = o[0]
            if type(disc) is int:
                return o[1] if disc == want else d
            ty = None
            if ops and ops[1] is not None:
                ty = I.operand_ty(fr, ops[1])
            return I.merge(T.eq(64, disc, want), self.payload(o, want), d, ty)

        @reg(r'^Option::<.*>::unwrap_or_else::', 'Option::unwrap_or_else')
        def _unwrap_or_else(fr, name, args, ops):
            o, f = args
            disc = o[0]
            if type(disc) is int:
                if disc == 1:
                    return o[1]
                return I.call_closure(fr, f, [])
            d = I.call_closure(fr, f, [])
            ty = None
            m_ = re.match(r'^Option::<(.*?)>::unwrap_or_else', name)
            if m_:
                try:
                    ty = parse_type(m_.group(1))
                except Exception:
                    ty = None
            return I.merge(T.eq(64, disc, 1), self.payload(o, 1), d, ty)

        @reg(r'^Option::<.*>::unwrap$|^Option::<.*>::expect$', 'Option::unwrap')
        def _opt_unwrap(fr, name, args, ops):
            o = args[0]
            disc = o[0]
            if type(disc) is int:
                if disc == 1:
                    return o[1]
                return I.panic(fr, 'called `Option::unwrap()` on a `None` value')
            raise Unsupported('unwrap of symbolic Option')

        @reg(r'^Result::<.*>::unwrap$|^Result::<.*>::expect$', 'Result::unwrap')
        def _res_unwrap(fr, name, args, ops):
            o = args[0]
            disc = o[0]
            if type(disc) is int:
                if disc == 0:
                    return o[1]
                return I.panic(fr, 'called `Result::unwrap()` on an `Err` value')
            from .mirsym import Obligation
            c = T.eq(64, disc, 0)
            I.obligations.append(Obligation(tuple(I.pc), c, 'unwrap', 'Result::unwrap', 'called `Result::unwrap()` on an `Err` value'))
            I.facts.append(T.implies(T.and_many(I.pc), c))
            return o[1]

        @reg(r'^Option::<.*>::is_none$', 'Option::is_none')
        def _is_none(fr, name, args, ops):
            o = self.deref(args[0])
            return T.eq(64, o[0], 0)

        @reg(r'^Option::<.*>::is_some$', 'Option::is_some')
        def _is_some(fr, name, args, ops):
            o = self.deref(args[0])
            return T.eq(64, o[0], 1)

        @reg(r'^Option::<.*>::as_ref$|^Option::<.*>::as_mut$', 'Option::as_ref')
        def _as_ref(fr, name, args, ops):
            o = self.deref(args[0])
            if type(o[0]) is not int:
                raise Unsupported('as_ref of symbolic Option')
            if o[0] == 1:
                return self.some(Ptr(o, 1))
            return self.none()

        @reg(r'^Option::<.*>::map::|^Result::<.*>::map::', 'Option/Result::map')
        def _map_or(fr, name, args, ops):
            o, f = args
            want = 1 if name.startswith('Option') else 0
            if type(o[0]) is not int:
                if o.tag != 'symenum':
                    # shared-payload form [d, p]: the closure runs under "is `want`"; the other variant keeps p
                    if len(o) < 2:
                        return o
                    I.pc.append(T.eq(64, o[0], want))
                    try:
                        r = self.apply_ctor_or_fn(fr, f, [o[1]])
                    finally:
                        I.pc.pop()
                    if r is DEAD:
                        raise Unsupported('closure diverges under map of a symbolic Option/Result')
                    if want == 1:
                        return I.mk([o[0], r], 'enum')
                    return I.mk([o[0], {0: I.mk([r]), 1: I.mk([o[1]])}], 'symenum')
                # case split on the discriminant: the closure runs under the path condition "is `want`"
                vm = dict(o[1])
                if want in vm:
                    I.pc.append(T.eq(64, o[0], want))
                    try:
                        r = self.apply_ctor_or_fn(fr, f, [vm[want][0]])
                    finally:
                        I.pc.pop()
                    if r is DEAD:
                        raise Unsupported('closure diverges under map of a symbolic Result')
                    vm[want] = I.mk([r])
                return I.mk([o[0], vm], 'symenum')
            if o[0] == want:
                r = self.apply_ctor_or_fn(fr, f, [o[1]])
                if r is DEAD:
                    return DEAD
                return I.mk([want, r], 'enum')
            return o

        @reg(r'^Result::<.*>::map_err::', 'Result::map_err')
        def _map_err(fr, name, args, ops):
            o, f = args
            if type(o[0]) is not int:
                if o.tag != 'symenum':
                    raise Unsupported('map_err of a Result with symbolic discriminant and shared payload')
                vm = dict(o[1])
                if 1 in vm:
                    I.pc.append(T.eq(64, o[0], 1))
                    try:
                        r = self.apply_ctor_or_fn(fr, f, [vm[1][0]])
                    finally:
                        I.pc.pop()
                    vm[1] = I.mk([r])
                return I.mk([o[0], vm], 'symenum')
            if o[0] == 1:
                r = self.apply_ctor_or_fn(fr, f, [o[1]])
                return I.mk([1, r], 'enum')
            return o

        @reg(r'^<Result<.*> as Try>::branch$|^<Result<.*> as std::ops::Try>::branch$', 'Try::branch (Result)')
        def _branch(fr, name, args, ops):
            o = args[0]
            if type(o[0]) is not int:
                if o.tag != 'symenum':
                    raise Unsupported('? on a Result with symbolic discriminant and shared payload')
                vm = {}
                if 0 in o[1]:
                    vm[0] = o[1][0]                                            # Continue(v)
                if 1 in o[1]:
                    vm[1] = I.mk([I.mk([1, o[1][1][0]], 'enum')])             # Break(Err(e))
                return I.mk([o[0], vm], 'symenum')
            if o[0] == 0:
                return I.mk([0, o[1]], 'enum')                       # Continue(v)
            return I.mk([1, I.mk([1, o[1]], 'enum')], 'enum')         # Break(Err(e))

        @reg(r'^<Result<.*> as FromResidual<.*>>::from_residual$', 'FromResidual::from_residual (Result)')
        def _from_res(fr, name, args, ops):
            r = args[0]
            return I.mk([1, r[1]], 'enum')

        # ---- cmp / conversions
        @reg(r'^std::cmp::min::<|^core::cmp::min::<|^<\w+ as Ord>::min$', 'cmp::min')
        def _min(fr, name, args, ops):
            a, b = args
            if type(a) is int and type(b) is int:
                return min(a, b)
            return T.ite(64, T.ult(64, b, a), b, a)

        @reg(r'^std::cmp::max::<|^core::cmp::max::<|^<\w+ as Ord>::max$', 'cmp::max')
        def _max(fr, name, args, ops):
            a, b = args
            if type(a) is int and type(b) is int:
                return max(a, b)
            return T.ite(64, T.ult(64, b, a), a, b)

        @reg(r'^<(u8|u16|u32|u64|usize|i32|i64|isize) as From<(bool|u8|u16|u32|char)>>::from$', 'From (integer widening)')
        def _from_int(fr, name, args, ops):
            m = re.match(r'^<(\w+) as From<(\w+)>>', name)
            to, frm = parse_type(m.group(1)), parse_type(m.group(2))
            return T.zext(frm.bits, to.bits, args[0])

        @reg(r'^<(.*) as Into<(.*)>>::into$', 'Into (blanket impl over a crate From impl, or integer widening)')
        def _into(fr, name, args, ops):
            m = re.match(r'^<(.*) as Into<(.*)>>::into$', name)
            x, y = m.group(1), m.group(2)
            try:
                f = I.prog.resolve('<%s as From<%s>>::from' % (y, x))
            except Unsupported:
                f = None
            if f is not None:
                return I.call_fn(f, list(args))
            try:
                frm, to = parse_type(x), parse_type(y)
            except Exception:
                raise Unsupported('Into %s' % name)
            if frm.kind in ('int', 'bool', 'char') and to.kind == 'int':
                return T.zext(frm.bits, to.bits, args[0])
            raise Unsupported('no From<%s> for %s in the crate' % (x, y))

        @reg(r'^core::num::<impl u8>::is_ascii_digit$|^core::char::methods::<impl u8>::is_ascii_digit$', 'u8::is_ascii_digit')
        def _is_digit(fr, name, args, ops):
            v = self.deref(args[0])
            return T.ult(8, T.sub(8, v, 0x30), 10)

        @reg(r'^<usize as Add<&usize>>::add$', 'usize + &usize')
        def _add_ref(fr, name, args, ops):
            a, b = args[0], self.deref(args[1])
            r = T.add(64, a, b)
            if type(a) is int and type(b) is int and a + b > M64:
                return I.panic(fr, 'attempt to add with overflow')
            return r

        @reg(r'^<isize as (Partial)?Ord>::(partial_)?cmp$', 'isize::cmp')
        def _icmp(fr, name, args, ops):
            a, b = self.deref(args[0]), self.deref(args[1])
            if type(a) is int and type(b) is int:
                sa, sb = T._to_signed(a, 64), T._to_signed(b, 64)
                r = 0xFF if sa < sb else (0 if sa == sb else 1)
            else:
                r = T.ite(8, T.slt(64, a, b), 0xFF, T.ite(8, T.eq(64, a, b), 0, 1))
            if 'partial' in name:
                return self.some(r)
            return r

        @reg(r'^std::intrinsics::discriminant_value::|^core::intrinsics::discriminant_value::', 'discriminant_value')
        def _dv(fr, name, args, ops):
            v = self.deref(args[0])
            if type(v) is L and v.tag == 'enum':
                return v[0]
            if type(v) is Term:
                return T.zext(v.w, 64, v)
            return v

        @reg(r'^<.* as PartialEq(<.*>)?>::ne$', 'PartialEq::ne (default method: !eq)')
        def _ne(fr, name, args, ops):
            r = I.call(fr, name[:-4] + '::eq', args, ops)
            return T.lnot(r)

        # ---- Box<[T; N]>::new_uninit + box_assume_init_into_vec_unsafe  (the expansion of vec![a, b, ..])
        @reg(r'^Box::<\[.*\]>::new_uninit$', 'Box::new_uninit (vec! literal)')
        def _box_new(fr, name, args, ops):
            value = I.mk([None])                                   # MaybeDangling<[T; N]>
            mu = I.mk([UNIT, I.mk([value])])                        # MaybeUninit { uninit: (), value: ManuallyDrop(..) }
            holder = I.mk([mu])
            ptr = Ptr(holder, 0)
            return I.mk([I.mk([I.mk([ptr], 'NonNull')], 'Unique')], 'Box')

        @reg(r'^std::boxed::box_assume_init_into_vec_unsafe::<', 'box_assume_init_into_vec_unsafe (vec! literal)')
        def _box_into_vec(fr, name, args, ops):
            b = args[0]
            ptr = b[0][0][0]
            arr = ptr.c[ptr.k][1][0][0]
            if type(arr) is not L:
                raise Unsupported('vec! literal was not initialised')
            buf = I.mk(list(arr), 'buf')
            return I.mk([buf, len(buf)], 'Vec')

        @reg(r'^std::f64::<impl f64>::round$|^core::f64::<impl f64>::round$', 'f64::round (half away from zero)')
        def _f_round(fr, name, args, ops):
            from . import fpterms
            return fpterms.round_(args[0])

        from . import libstr, libmore
        libstr.register(self)
        libmore.register(self)
        libmore.register_cells(self)
        libmore.register_ints(self)
        libmore.register_cmp(self)
        libmore.register_misc(self)
        libmore.register_result(self)
        libmore.register_text_more(self)
        libmore.register_last(self)

    def apply_ctor_or_fn(self, fr, f, args):
        I = self.I
        if type(f) is FnRef:
            # enum variant constructor used as a function (SvgError::IoError)
            parts = f.name.split('::')
            if len(parts) >= 2 and parts[-2] in I.prog.enums:
                idx, dv, nf = I.prog.variant(parts[-2], parts[-1])
                return I.mk([dv] + list(args), 'enum')
        return I.call_closure(fr, f, args)

    def render_debug(self, a):
        return 'formatted panic message'
