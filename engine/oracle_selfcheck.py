"""Cross-check of the oracle's tables (run by setup_cmd and at the start of checks that use them):
 (a) internal identities between Table 9 data and the geometry-derived module counts,
 (b) the independent tables in the qrcode 0.12.0 crate source found in the cargo registry.
A mismatch is an oracle fault (exit 3), never a violation of fast_qr."""
import glob
import os
import re
import sys
from . import iso


def _qrcode_src():
    pats = glob.glob(os.path.expanduser('~/.cargo/registry/src/*/qrcode-0.12.0/src'))
    return pats[0] if pats else None


def _table(text, name):
    i = text.index('static ' + name)
    k = text.index('= [', i)
    j = text.index('\n];', k)
    body = text[k + 1:j + 2]
    body = re.sub(r'//[^\n]*', '', body)
    body = body.replace('&[', '[')
    return eval(body.replace('\n', ' '), {'__builtins__': {}})


def run(verbose=True):
    problems = []
    # (a) internal
    for v in range(1, 41):
        g = iso.geometry(v)
        n = g['n']
        assert n == 17 + 4 * v
        total = iso.total_codewords(v)
        for lv in iso.LEVELS:
            ec, lens = iso.block_layout(v, lv)
            if sum(lens) + ec * len(lens) != total:
                problems.append('Table 9 identity fails at V%d-%s' % (v, lv))
            if max(lens) + ec > 255:
                problems.append('block longer than 255 at V%d-%s' % (v, lv))
        cs = iso.alignment_centres(v)
        if v > 1 and (cs[0] != 6 or cs[-1] != n - 7):
            problems.append('alignment ends V%d' % v)
    # BCH sanity: format/version codewords are multiples of their generators
    for lv in iso.LEVELS:
        for m in range(8):
            w = iso.bch_format(lv, m) ^ 0x5412
            r = w
            for sh in range(4, -1, -1):
                if (r >> (sh + 10)) & 1:
                    r ^= 0x537 << sh
            if r:
                problems.append('format BCH %s %d' % (lv, m))
    src = _qrcode_src()
    checked_ext = 0
    if src is None:
        problems.append('qrcode-0.12.0 source not found in the cargo registry (cross-check (b) not possible)')
    else:
        ec_t = _table(open(os.path.join(src, 'ec.rs')).read(), 'EC_BYTES_PER_BLOCK')
        db_t = _table(open(os.path.join(src, 'ec.rs')).read(), 'DATA_BYTES_PER_BLOCK')
        dl_t = _table(open(os.path.join(src, 'bits.rs')).read(), 'DATA_LENGTHS')
        canvas = open(os.path.join(src, 'canvas.rs')).read()
        al_t = _table(canvas, 'ALIGNMENT_PATTERN_POSITIONS')
        vi_t = _table(canvas, 'VERSION_INFOS')
        fi_t = _table(canvas, 'FORMAT_INFOS_QR')
        for v in range(1, 41):
            for li, lv in enumerate(iso.LEVELS):
                ec, lens = iso.block_layout(v, lv)
                if ec_t[v - 1][li] != ec:
                    problems.append('EC_BYTES_PER_BLOCK differs at V%d-%s: %d vs %d' % (v, lv, ec_t[v - 1][li], ec))
                s1, c1, s2, c2 = db_t[v - 1][li]
                exp = [s1] * c1 + [s2] * c2
                if exp != lens:
                    problems.append('DATA_BYTES_PER_BLOCK differs at V%d-%s' % (v, lv))
                if dl_t[v - 1][li] != 8 * sum(lens):
                    problems.append('DATA_LENGTHS differs at V%d-%s' % (v, lv))
                checked_ext += 3
            if v >= 7:
                if list(al_t[v - 7]) != iso.alignment_centres(v):
                    problems.append('ALIGNMENT_PATTERN_POSITIONS differs at V%d' % v)
                if vi_t[v - 7] != iso.bch_version(v):
                    problems.append('VERSION_INFOS differs at V%d' % v)
                checked_ext += 2
        # FORMAT_INFOS_QR is indexed by (ec_level ^ 1) << 3 | mask in that crate, i.e. by the 5 data bits
        for lv in iso.LEVELS:
            for m in range(8):
                idx = (iso.LEVEL_BITS[lv] << 3) | m
                if fi_t[idx] != iso.bch_format(lv, m):
                    problems.append('FORMAT_INFOS_QR differs at %s/%d' % (lv, m))
                checked_ext += 1
    if verbose:
        print('oracle self-check: %d external comparisons, %d problems' % (checked_ext, len(problems)))
        for p in problems:
            print('  ORACLE-FAULT:', p)
    return problems, checked_ext


if __name__ == '__main__':
    probs, _ = run()
    sys.exit(3 if probs else 0)
