"""Parser for rustc's textual MIR (-Zunpretty=mir).  Only the forms that occur in
fast_qr are understood; anything else becomes an ('unsupported', text) node that
raises when (and only when) it is executed."""
import re


class ParseError(Exception):
    pass


# ---------------------------------------------------------------- types

class Ty:
    __slots__ = ('kind', 'name', 'args', 'n', 'bits', 'signed', 'text')

    def __init__(self, kind, name=None, args=(), n=None, bits=None, signed=False, text=None):
        self.kind = kind      # int bool char float ref ptr slice array tuple adt str fnptr fndef closure never param dyn
        self.name = name
        self.args = tuple(args)
        self.n = n
        self.bits = bits
        self.signed = signed
        self.text = text

    def __repr__(self):
        return self.text or self.kind


_INT = {'u8': (8, False), 'u16': (16, False), 'u32': (32, False), 'u64': (64, False), 'u128': (128, False),
        'usize': (64, False), 'i8': (8, True), 'i16': (16, True), 'i32': (32, True), 'i64': (64, True),
        'i128': (128, True), 'isize': (64, True)}

_ty_cache = {}


def split_top(s, sep=','):
    """split on sep at nesting depth 0 of <>, (), [], {}"""
    out = []
    depth = 0
    cur = []
    i = 0
    n = len(s)
    in_str = False
    while i < n:
        c = s[i]
        if in_str:
            cur.append(c)
            if c == '\\':
                cur.append(s[i + 1])
                i += 1
            elif c == '"':
                in_str = False
        elif c == '"':
            in_str = True
            cur.append(c)
        elif c == "'" and i + 2 < n and (s[i + 2] == "'" or (s[i + 1] == '\\')):
            # char literal
            j = s.index("'", i + 2 if s[i + 1] != '\\' else i + 3)
            cur.append(s[i:j + 1])
            i = j
        elif c in '<([{':
            if c == '<' and i > 0 and s[i - 1] == ' ' and i + 1 < n and s[i + 1] == ' ':
                cur.append(c)  # comparison operator (not in MIR, but be safe)
            else:
                depth += 1
                cur.append(c)
        elif c in '>)]}':
            if c == '>' and i > 0 and s[i - 1] == '-':
                cur.append(c)  # ->
            else:
                depth -= 1
                cur.append(c)
        elif c == sep and depth == 0:
            out.append(''.join(cur).strip())
            cur = []
        else:
            cur.append(c)
        i += 1
    last = ''.join(cur).strip()
    if last or out:
        out.append(last)
    return out


def parse_type(s):
    s = s.strip()
    t = _ty_cache.get(s)
    if t is not None:
        return t
    t = _parse_type(s)
    t.text = s
    _ty_cache[s] = t
    return t


def _parse_type(s):
    if s in _INT:
        b, sg = _INT[s]
        return Ty('int', s, bits=b, signed=sg)
    if s == 'bool':
        return Ty('bool', bits=1)
    if s == 'char':
        return Ty('char', bits=32)
    if s in ('f64', 'f32'):
        return Ty('float', s, bits=64 if s == 'f64' else 32)
    if s == 'str':
        return Ty('str')
    if s == '!':
        return Ty('never')
    if s == '()':
        return Ty('tuple', args=())
    if s.startswith('&'):
        rest = s[1:].lstrip()
        # lifetimes
        m = re.match(r"'[A-Za-z_0-9]+\s+", rest)
        if m:
            rest = rest[m.end():]
        mut = False
        if rest.startswith('mut '):
            mut = True
            rest = rest[4:]
        return Ty('ref', 'mut' if mut else 'shared', args=(parse_type(rest),))
    if s.startswith('*const ') or s.startswith('*mut '):
        rest = s.split(' ', 1)[1]
        return Ty('ptr', args=(parse_type(rest),))
    if s.startswith('['):
        inner = s[1:-1]
        parts = split_top(inner, ';')
        if len(parts) == 2:
            n = parts[1].strip()
            try:
                n = int(n)
            except ValueError:
                n = None
            return Ty('array', args=(parse_type(parts[0]),), n=n)
        return Ty('slice', args=(parse_type(inner),))
    if s.startswith('('):
        inner = s[1:-1]
        parts = [p for p in split_top(inner) if p != '']
        return Ty('tuple', args=[parse_type(p) for p in parts])
    if s.startswith('fn(') or s.startswith('unsafe fn(') or s.startswith('for<'):
        if '{' in s:
            return Ty('fndef', s)
        return Ty('fnptr', s)
    if s.startswith('{closure@') or s.startswith('{closure#'):
        return Ty('closure', s)
    if s.startswith('dyn '):
        return Ty('dyn', s)
    if s.startswith('impl '):
        return Ty('param', s)
    # ADT / path, possibly with generic args
    m = re.match(r'^([^<]*?)(?:::)?<(.*)>$', s)
    if m and not s.startswith('<'):
        name = m.group(1)
        args = [parse_type(a) for a in split_top(m.group(2)) if a and not a.startswith("'")]
        return Ty('adt', short_name(name), args=args)
    return Ty('adt', short_name(s))


def short_name(path):
    """std::option::Option -> Option ; qr::QRCode -> QRCode"""
    if path.startswith('<'):
        return path
    return path.split('::')[-1]


# ---------------------------------------------------------------- places / operands

class Place:
    __slots__ = ('local', 'proj', 'text')

    def __init__(self, local, proj, text):
        self.local = local
        self.proj = proj      # list of ('deref',) ('field', idx, Ty) ('downcast', variant) ('index', local) ('cindex', i, from_end)
        self.text = text

    def __repr__(self):
        return self.text


_place_cache = {}


def parse_place(s):
    s = s.strip()
    p = _place_cache.get(s)
    if p is None:
        local, proj, rest = _parse_place(s, 0)
        if rest != len(s):
            raise ParseError('trailing place text: %r' % s)
        p = Place(local, proj, s)
        _place_cache[s] = p
    return p


def _match_paren(s, i):
    """s[i] == '(' -> index of matching ')' honouring nesting of ([<{"""
    depth = 0
    j = i
    n = len(s)
    while j < n:
        c = s[j]
        if c in '([{':
            depth += 1
        elif c in ')]}':
            depth -= 1
            if depth == 0:
                return j
        j += 1
    raise ParseError('unbalanced: %r' % s)


def _parse_place(s, i):
    """returns (local, proj list, next index)"""
    proj = []
    if s[i] == '(':
        j = _match_paren(s, i)
        inner = s[i + 1:j]
        if inner.startswith('*'):
            local, proj, k = _parse_place(inner, 1)
            if k != len(inner):
                raise ParseError('deref: %r' % inner)
            proj = proj + [('deref',)]
        else:
            local, proj, k = _parse_place(inner, 0)
            rest = inner[k:]
            if rest.startswith(' as '):
                proj = proj + [('downcast', rest[4:].strip())]
            elif rest.startswith('.'):
                m = re.match(r'\.(\d+): ', rest)
                if not m:
                    raise ParseError('field: %r' % inner)
                proj = proj + [('field', int(m.group(1)), parse_type(rest[m.end():]))]
            else:
                raise ParseError('place paren: %r' % inner)
        i = j + 1
    else:
        m = re.match(r'_(\d+)', s[i:])
        if not m:
            raise ParseError('place: %r at %d' % (s, i))
        local = int(m.group(1))
        i += m.end()
    # suffix index projections
    while i < len(s) and s[i] == '[':
        j = s.index(']', i)
        inner = s[i + 1:j]
        m = re.match(r'^_(\d+)$', inner)
        if m:
            proj.append(('index', int(m.group(1))))
        else:
            m = re.match(r'^(-?)(\d+) of (\d+)$', inner)
            if m:
                proj.append(('cindex', int(m.group(2)), bool(m.group(1))))
            else:
                m = re.match(r'^(\d+):(-?)(\d+)$', inner) or re.match(r'^(\d+)\.\.(-?)(\d+)$', inner)
                if m:
                    proj.append(('subslice', int(m.group(1)), int(m.group(3)), bool(m.group(2))))
                else:
                    raise ParseError('index: %r' % inner)
        i = j + 1
    return local, proj, i


class Const:
    __slots__ = ('kind', 'val', 'ty', 'text')

    def __init__(self, kind, val, ty, text):
        self.kind = kind   # int bool char float str bytes named unit fn
        self.val = val
        self.ty = ty
        self.text = text

    def __repr__(self):
        return 'const ' + self.text


def _unescape(body):
    out = bytearray()
    i = 0
    while i < len(body):
        c = body[i]
        if c == '\\':
            d = body[i + 1]
            if d == 'n':
                out += b'\n'; i += 2
            elif d == 't':
                out += b'\t'; i += 2
            elif d == 'r':
                out += b'\r'; i += 2
            elif d == '0':
                out += b'\0'; i += 2
            elif d == '\\':
                out += b'\\'; i += 2
            elif d == '"':
                out += b'"'; i += 2
            elif d == "'":
                out += b"'"; i += 2
            elif d == 'x':
                out.append(int(body[i + 2:i + 4], 16)); i += 4
            elif d == 'u':
                j = body.index('}', i)
                out += chr(int(body[i + 3:j], 16)).encode('utf-8'); i = j + 1
            else:
                raise ParseError('escape %r' % body[i:i + 4])
        else:
            out += c.encode('utf-8')
            i += 1
    return bytes(out)


def parse_const(s):
    """text after 'const '"""
    s = s.strip()
    m = re.match(r'^(-?[0-9]+)_(u8|u16|u32|u64|u128|usize|i8|i16|i32|i64|i128|isize)$', s)
    if m:
        ty = parse_type(m.group(2))
        return Const('int', int(m.group(1)) & ((1 << ty.bits) - 1), ty, s)
    if s == 'true' or s == 'false':
        return Const('bool', 1 if s == 'true' else 0, parse_type('bool'), s)
    m = re.match(r'^(-?[0-9.]+(?:[eE][-+]?[0-9]+)?|-?inf|NaN)(f64|f32)$', s)
    if m:
        return Const('float', float(m.group(1)), parse_type(m.group(2)), s)
    if s.startswith("'") and s.endswith("'"):
        body = _unescape(s[1:-1]).decode('utf-8')
        return Const('char', ord(body), parse_type('char'), s)
    if s.startswith('"') and s.endswith('"'):
        return Const('str', _unescape(s[1:-1]), parse_type('&str'), s)
    if s.startswith('b"') and s.endswith('"'):
        return Const('bytes', _unescape(s[2:-1]), parse_type('&[u8]'), s)
    if s == '()':
        return Const('unit', None, parse_type('()'), s)
    m = re.match(r'^(u8|u16|u32|u64|u128|usize|i8|i16|i32|i64|i128|isize)::(MAX|MIN)$', s)
    if m:
        ty = parse_type(m.group(1))
        if m.group(2) == 'MAX':
            v = (1 << (ty.bits - 1)) - 1 if ty.signed else (1 << ty.bits) - 1
        else:
            v = (1 << (ty.bits - 1)) if ty.signed else 0
        return Const('int', v, ty, s)
    m = re.match(r'^core::num::<impl (\w+)>::(MAX|MIN)$', s)
    if m:
        return parse_const('%s::%s' % (m.group(1), m.group(2)))
    if s.startswith('ZeroSized: '):
        t = s[len('ZeroSized: '):]
        if t.startswith('{closure@'):
            return Const('closure', t, parse_type(t), s)
        return Const('fn', t, None, s)
    return Const('named', s, None, s)


class Operand:
    __slots__ = ('mode', 'place', 'const')

    def __init__(self, mode, place=None, const=None):
        self.mode = mode     # 'copy' 'move' 'const'
        self.place = place
        self.const = const

    def __repr__(self):
        return '%s %r' % (self.mode, self.place if self.place is not None else self.const)


def parse_operand(s):
    s = s.strip()
    if s.startswith('no_retag '):
        s = s[9:]
    if s.startswith('copy '):
        return Operand('copy', parse_place(s[5:]))
    if s.startswith('move '):
        return Operand('move', parse_place(s[5:]))
    if s.startswith('const '):
        return Operand('const', const=parse_const(s[6:]))
    # bare function item / constructor used as a value, e.g. SvgError::IoError
    return Operand('const', const=Const('fn', s, None, s))


# ---------------------------------------------------------------- rvalues

BINOPS = {'Add', 'Sub', 'Mul', 'Div', 'Rem', 'BitXor', 'BitAnd', 'BitOr', 'Shl', 'Shr', 'Eq', 'Lt', 'Le', 'Ne',
          'Ge', 'Gt', 'AddWithOverflow', 'SubWithOverflow', 'MulWithOverflow', 'AddUnchecked', 'SubUnchecked',
          'MulUnchecked', 'ShlUnchecked', 'ShrUnchecked', 'Cmp', 'Offset'}
UNOPS = {'Not', 'Neg', 'PtrMetadata'}


def parse_rvalue(s):
    s = s.strip()
    if s.startswith('no_retag '):
        s = s[9:]
    # cast:  OPERAND as TYPE (Kind)
    m = re.match(r'^(.*) as (.*) \(([A-Za-z]+(?:\(.*\))?)\)$', s)
    if m and (m.group(1).startswith(('copy ', 'move ', 'const ')) or re.match(r'^[A-Za-z_<]', m.group(1))) \
            and not m.group(1).startswith(('&', '[', '(')):
        return ('cast', parse_operand(m.group(1)), parse_type(m.group(2)), m.group(3))
    if s.startswith('copy ') or s.startswith('move ') or s.startswith('const '):
        return ('use', parse_operand(s))
    if s.startswith('&raw const ') or s.startswith('&raw mut '):
        rest = s.split(' ', 2)[2]
        if rest.startswith('(fake) '):
            rest = rest[7:]
        return ('ref', parse_place(rest), 'raw')
    if s.startswith('&mut '):
        return ('ref', parse_place(s[5:]), 'mut')
    if s.startswith('&fake shallow '):
        return ('ref', parse_place(s[len('&fake shallow '):]), 'shared')
    if s.startswith('&') and not s.startswith('&&'):
        return ('ref', parse_place(s[1:]), 'shared')
    m = re.match(r'^([A-Za-z]+)\((.*)\)$', s)
    if m and m.group(1) in BINOPS:
        a, b = split_top(m.group(2))
        return ('binop', m.group(1), parse_operand(a), parse_operand(b))
    if m and m.group(1) in UNOPS:
        return ('unop', m.group(1), parse_operand(m.group(2)))
    if m and m.group(1) == 'discriminant':
        return ('discriminant', parse_place(m.group(2)))
    if m and m.group(1) == 'Len':
        return ('len', parse_place(m.group(2)))
    if m and m.group(1) == 'CopyForDeref':
        return ('use', Operand('copy', parse_place(m.group(2))))
    if s.startswith('['):
        inner = s[1:-1]
        parts = split_top(inner, ';')
        if len(parts) == 2 and not split_top(inner)[1:]:
            n = parts[1].strip()
            n = int(n) if n.isdigit() else ('const', n)
            return ('repeat', parse_operand(parts[0]), n)
        elems = [p for p in split_top(inner) if p != '']
        return ('array', [parse_operand(e) for e in elems])
    if s.startswith('('):
        inner = s[1:-1]
        elems = [p for p in split_top(inner) if p != '']
        return ('tuple', [parse_operand(e) for e in elems])
    if s.startswith('{closure@') or s.startswith('{coroutine@'):
        # {closure@src/x.rs:1:2: 3:4}   or   {closure@...} { captured: operand, .. }
        k = s.index('}')
        ty = s[:k + 1]
        rest = s[k + 1:].strip()
        caps = []
        if rest.startswith('{') and rest.endswith('}'):
            for f in split_top(rest[1:-1].strip()):
                if f:
                    caps.append(parse_operand(f.split(': ', 1)[1]))
        return ('closure', ty, caps)
    # struct literal  Name { f: op, .. }
    m = re.match(r'^(.*?) \{ (.*) \}$', s)
    if m and not m.group(1).startswith(('copy', 'move', 'const')):
        fields = []
        for f in split_top(m.group(2)):
            k, v = f.split(': ', 1)
            fields.append((k.strip(), parse_operand(v)))
        return ('struct', m.group(1), fields)
    # tuple struct / enum variant with payload  Name(op, ..)   (the name may contain `()` inside generic arguments)
    if s.endswith(')') and re.match(r'^[A-Za-z_<]', s) and not s.startswith(('copy ', 'move ', 'const ')):
        depth = 0
        k = len(s) - 1
        while k >= 0:
            if s[k] == ')':
                depth += 1
            elif s[k] == '(':
                depth -= 1
                if depth == 0:
                    break
            k -= 1
        name = s[:k]
        if k > 0 and re.match(r'^[A-Za-z_<][A-Za-z0-9_:<>, \[\];&\'()]*$', name) and not name.endswith(('<', ',', ' ')):
            args = [p for p in split_top(s[k + 1:-1]) if p != '']
            return ('ctor', name, [parse_operand(a) for a in args])
    # unit variant / unit struct
    if re.match(r'^[A-Za-z_<][A-Za-z0-9_:<>, \[\];&\'()]*$', s):
        return ('ctor', s, [])
    return ('unsupported', s)


# ---------------------------------------------------------------- functions

class Block:
    __slots__ = ('stmts', 'term', 'cleanup')


class Function:
    __slots__ = ('name', 'params', 'ret', 'locals', 'blocks', 'is_const_item', 'header', 'nlocals', 'impl_span',
                 'ipdom', 'self_ty', 'trait', 'n_stmts')


_hdr_fn = re.compile(r'^fn (.*?)\((.*)\) -> (.*) \{$')
_hdr_const = re.compile(r'^(?:const|static(?: mut)?) (.*?): (.*) = (.*)$')


class _FnHdr:
    def __init__(self, *g):
        self.g = g

    def group(self, i):
        return self.g[i - 1]


def parse_terminator(s):
    s = s.strip()
    if s.endswith(';'):
        s = s[:-1]
    if s == 'return':
        return ('return',)
    if s == 'unreachable':
        return ('unreachable',)
    if s in ('resume', 'terminate(cleanup)', 'terminate(abi)') or s.startswith('resume'):
        return ('resume',)
    m = re.match(r'^goto -> bb(\d+)$', s)
    if m:
        return ('goto', int(m.group(1)))
    m = re.match(r'^switchInt\((.*)\) -> \[(.*)\]$', s)
    if m:
        targets = []
        otherwise = None
        for part in m.group(2).split(', '):
            k, v = part.split(': ')
            bb = int(v[2:])
            if k == 'otherwise':
                otherwise = bb
            else:
                targets.append((int(k), bb))
        return ('switch', parse_operand(m.group(1)), targets, otherwise)
    m = re.match(r'^assert\((.*)\) -> \[success: bb(\d+), unwind[^\]]*\]$', s)
    if m:
        parts = split_top(m.group(1))
        cond = parts[0]
        neg = False
        if cond.startswith('!'):
            neg = True
            cond = cond[1:]
        msg = parts[1] if len(parts) > 1 else ''
        return ('assert', parse_operand(cond), neg, int(m.group(2)), msg, [parse_operand(p) for p in parts[2:]])
    m = re.match(r'^drop\((.*)\) -> \[return: bb(\d+), unwind[^\]]*\]$', s)
    if m:
        return ('drop', parse_place(m.group(1)), int(m.group(2)))
    m = re.match(r'^falseEdge -> \[real: bb(\d+), imaginary: bb(\d+)\]$', s)
    if m:
        return ('goto', int(m.group(1)))
    m = re.match(r'^falseUnwind -> \[real: bb(\d+), .*\]$', s)
    if m:
        return ('goto', int(m.group(1)))
    # call:  DEST = FUNC(ARGS) -> [return: bbN, unwind ...]   or  -> unwind continue (diverging)
    m = re.match(r'^(.*?) = (.*)\((.*)\) -> (?:\[return: bb(\d+), unwind[^\]]*\]|unwind .*)$', s)
    if m:
        dest = parse_place(m.group(1))
        # function expression may itself contain parentheses (fn pointer types in generics): re-split
        full = s[len(m.group(1)) + 3:]
        full = re.sub(r' -> (?:\[return: bb\d+, unwind[^\]]*\]|unwind [a-z()]*)$', '', full)
        # find the argument list: the last top-level (...) group
        assert full.endswith(')'), full
        depth = 0
        k = len(full) - 1
        while k >= 0:
            c = full[k]
            if c == ')':
                depth += 1
            elif c == '(':
                depth -= 1
                if depth == 0:
                    break
            k -= 1
        func = full[:k]
        args = [a for a in split_top(full[k + 1:-1]) if a != '']
        ret = int(m.group(4)) if m.group(4) is not None else None
        if func.startswith('move ') or func.startswith('copy '):
            fexpr = ('indirect', parse_operand(func))
        else:
            fexpr = ('direct', func)
        return ('call', dest, fexpr, [parse_operand(a) for a in args], ret)
    return ('unsupported_term', s)


def parse_statement(s):
    s = s.strip()
    if s.endswith(';'):
        s = s[:-1]
    if s.startswith(('StorageLive', 'StorageDead', 'ConstEvalCounter', 'nop', 'FakeRead', 'PlaceMention', 'Retag',
                     'AscribeUserType', 'Coverage', 'BackwardIncompatibleDropHint')):
        return None
    m = re.match(r'^Deinit\((.*)\)$', s)
    if m:
        return None
    m = re.match(r'^discriminant\((.*)\) = (\d+)$', s)
    if m:
        return ('setdiscr', parse_place(m.group(1)), int(m.group(2)))
    m = re.match(r'^assume\((.*)\)$', s)
    if m:
        return None
    # assignment: PLACE = RVALUE.  The place may contain ' = ' never; split on first ' = ' at depth 0
    depth = 0
    for i, c in enumerate(s):
        if c in '([{':
            depth += 1
        elif c in ')]}':
            depth -= 1
        elif c == '=' and depth == 0 and s[i - 1] == ' ' and s[i + 1] == ' ':
            lhs = s[:i - 1]
            rhs = s[i + 2:]
            try:
                return ('assign', parse_place(lhs), parse_rvalue(rhs), s)
            except ParseError as e:
                return ('unsupported', s + '  # ' + str(e))
    return ('unsupported', s)


def parse_mir(text):
    """returns (functions: list[Function], allocs: dict name -> bytes)"""
    lines = text.split('\n')
    funcs = []
    allocs = {}
    i = 0
    n = len(lines)
    skip_next_fn = False
    while i < n:
        line = lines[i]
        if line.startswith('// MIR FOR CTFE'):
            skip_next_fn = True
            i += 1
            continue
        if line.startswith('alloc') and 'size:' in line and re.match(r'^alloc\d+ \(', line):
            m = re.match(r'^(alloc\d+) \((?:static: [^,]+, )?size: (\d+), align: \d+\) \{', line)
            name = m.group(1)
            size = int(m.group(2))
            data = bytearray()
            relocs = []
            if line.rstrip().endswith('{}'):
                allocs[name] = (bytes(data), relocs)
                i += 1
                continue
            i += 1
            while not lines[i].startswith('}'):
                l = lines[i]
                body = l.split('│')
                hexpart = body[1] if len(body) >= 3 else body[0]
                for tok in hexpart.split():
                    if re.match(r'^[0-9a-f]{2}$', tok):
                        data.append(int(tok, 16))
                    elif tok.startswith('╾') or 'alloc' in tok:
                        mm = re.search(r'alloc\d+', tok)
                        relocs.append((len(data), mm.group(0) if mm else tok))
                        data += b'\0' * 8
                    elif tok in ('__',):
                        data.append(0)
                i += 1
            allocs[name] = (bytes(data[:size]) if not relocs else bytes(data), relocs)
            i += 1
            continue
        m = None
        if line.startswith('fn ') and line.endswith('{'):
            k = line.index('(')
            j = _match_paren(line, k)
            if line[j + 1:j + 5] == ' -> ':
                m = _FnHdr(line[3:k], line[k + 1:j], line[j + 5:-2])
        mc = None
        if not m and (line.startswith('const ') or line.startswith('static ')):
            mc = None
            k = line.find(' = ')
            if k > 0:
                left = line[:k]
                left = left[6:] if left.startswith('const ') else left.split(' ', 1)[1]
                if left.startswith('mut '):
                    left = left[4:]
                if ': ' in left:
                    nm, ty = left.rsplit(': ', 1)
                    mc = _FnHdr(nm, ty, line[k + 3:])
        if m or mc:
            f = Function()
            f.header = line
            f.locals = {}
            f.blocks = {}
            f.impl_span = None
            f.self_ty = None
            f.trait = None
            if m:
                f.name = m.group(1)
                f.is_const_item = False
                f.params = []
                for p in split_top(m.group(2)):
                    if not p:
                        continue
                    mm = re.match(r'^_(\d+): (.*)$', p)
                    f.params.append(int(mm.group(1)))
                    f.locals[int(mm.group(1))] = parse_type(mm.group(2))
                f.ret = parse_type(m.group(3))
            else:
                f.name = mc.group(1)
                f.is_const_item = True
                f.params = []
                f.ret = parse_type(mc.group(2))
                mi0 = re.search(r'<impl at ([^>]*?):(\d+):(\d+): (\d+):(\d+)>', f.name)
                if mi0:
                    f.impl_span = (mi0.group(1), int(mi0.group(2)), int(mi0.group(3)), int(mi0.group(4)), int(mi0.group(5)))
                rhs = mc.group(3).strip()
                if rhs != '{':
                    # one-line constant:  const X: T = const V;
                    b = Block()
                    b.cleanup = False
                    b.stmts = [('assign', parse_place('_0'), parse_rvalue(rhs.rstrip(';')), rhs)]
                    b.term = ('return',)
                    f.blocks[0] = b
                    f.locals[0] = f.ret
                    f.nlocals = 1
                    f.ipdom = None
                    f.n_stmts = 1
                    if not skip_next_fn:
                        funcs.append(f)
                    skip_next_fn = False
                    i += 1
                    continue
            mi = re.search(r'<impl at ([^>]*?):(\d+):(\d+): (\d+):(\d+)>', f.name)
            if mi:
                f.impl_span = (mi.group(1), int(mi.group(2)), int(mi.group(3)), int(mi.group(4)), int(mi.group(5)))
            i += 1
            cur = None
            while i < n and not lines[i].startswith('}'):
                l = lines[i].strip()
                if l.startswith('let '):
                    mm = re.match(r'^let (?:mut )?_(\d+): (.*);$', l)
                    if mm:
                        f.locals[int(mm.group(1))] = parse_type(mm.group(2))
                elif l.startswith('bb') and l.endswith('{'):
                    mm = re.match(r'^bb(\d+)( \(cleanup\))?: \{$', l)
                    cur = Block()
                    cur.stmts = []
                    cur.term = None
                    cur.cleanup = bool(mm.group(2))
                    f.blocks[int(mm.group(1))] = cur
                elif cur is not None and l and l != '}':
                    # statements may span one line only in this printer
                    if cur.term is not None:
                        pass
                    else:
                        t = None
                        if l.startswith(('goto', 'switchInt', 'return', 'unreachable', 'resume', 'assert(', 'drop(',
                                         'falseEdge', 'falseUnwind', 'terminate')) or ' -> [return:' in l \
                                or re.search(r'\) -> unwind [a-z()]*;$', l):
                            t = parse_terminator(l)
                            cur.term = t
                        else:
                            st = parse_statement(l)
                            if st is not None:
                                cur.stmts.append(st)
                elif l == '}':
                    cur = None
                i += 1
            f.nlocals = (max(f.locals) + 1) if f.locals else 1
            f.ipdom = None
            f.n_stmts = sum(len(b.stmts) + 1 for b in f.blocks.values())
            if not skip_next_fn:
                funcs.append(f)
            skip_next_fn = False
        i += 1
    return funcs, allocs


def compute_ipdom(f):
    """immediate post-dominators over the non-cleanup CFG; exit node is -1."""
    succ = {}
    for b, blk in f.blocks.items():
        if blk.cleanup:
            continue
        t = blk.term
        s = []
        if t is None:
            s = []
        elif t[0] == 'goto':
            s = [t[1]]
        elif t[0] == 'switch':
            s = [bb for _, bb in t[2]] + ([t[3]] if t[3] is not None else [])
        elif t[0] == 'assert':
            s = [t[3]]
        elif t[0] == 'drop':
            s = [t[2]]
        elif t[0] == 'call':
            s = [t[4]] if t[4] is not None else []
        elif t[0] == 'return':
            s = [-1]
        else:
            s = []
        succ[b] = s
    nodes = list(succ) + [-1]
    succ[-1] = []
    # nodes that cannot reach exit (panic blocks, unreachable) post-dominated by everything: treat specially
    full = set(nodes)
    pdom = {b: set(full) for b in nodes}
    pdom[-1] = {-1}
    changed = True
    order = sorted(succ, reverse=True)
    while changed:
        changed = False
        for b in order:
            if b == -1:
                continue
            ss = succ[b]
            if ss:
                new = set(full)
                for x in ss:
                    new &= pdom[x]
            else:
                new = set(full)   # diverging block: vacuous
            new = new | {b}
            if new != pdom[b]:
                pdom[b] = new
                changed = True
    ip = {}
    for b in nodes:
        if b == -1:
            continue
        cands = pdom[b] - {b}
        # immediate = the candidate that is post-dominated by all other candidates
        best = None
        for c in cands:
            if all((d in pdom[c]) for d in cands):
                best = c
                break
        ip[b] = best
    f.ipdom = ip
    return ip
