use super::*;
use crate::encode;

fn in_alnum_set(c: u8) -> bool {
    (c >= b'0' && c <= b'9') || (c >= b'A' && c <= b'Z') || c == b' ' || c == b'$' || c == b'%' || c == b'*'
        || c == b'+' || c == b'-' || c == b'.' || c == b'/' || c == b':'
}

fn alnum_value(c: u8) -> usize {
    const SET: &[u8; 45] = b"0123456789ABCDEFGHIJKLMNOPQRSTUVWXYZ $%*+-./:";
    let mut i = 0;
    while i < 45 {
        if SET[i] == c {
            return i;
        }
        i += 1;
    }
    45
}

fn check_best_encoding<const N: usize>() {
    let buf: [u8; N] = kani::any();
    let len: usize = kani::any();
    kani::assume(len <= N);
    let s = &buf[..len];
    let mut all_digit = true;
    let mut all_alnum = true;
    let mut i = 0;
    while i < len {
        if !(s[i] >= b'0' && s[i] <= b'9') {
            all_digit = false;
        }
        if !in_alnum_set(s[i]) {
            all_alnum = false;
        }
        i += 1;
    }
    let got = encode::best_encoding(s);
    if all_digit {
        assert!(got == Mode::Numeric);
    } else if all_alnum {
        assert!(got == Mode::Alphanumeric);
    } else {
        assert!(got == Mode::Byte);
    }
    kani::cover!(len == N && all_digit);
    kani::cover!(len == N && all_alnum && !all_digit);
    kani::cover!(len == 0);
}

/// C09: the automatic mode is Numeric iff all digits (incl. empty), Alphanumeric iff all in the 45-set and some
/// non-digit, Byte otherwise - for every byte string up to 24 bytes (length symbolic)
#[kani::proof]
#[kani::unwind(26)]
fn c09_best_encoding_24() {
    check_best_encoding::<24>();
}

/// same, up to 96 bytes (thorough tier)
#[kani::proof]
#[kani::unwind(98)]
fn c09_best_encoding_96() {
    check_best_encoding::<96>();
}

/// C09: the alphanumeric value table agrees with the classifier on every byte and never panics inside the set
#[kani::proof]
#[kani::unwind(46)]
fn c09_alnum_value_table() {
    let c: u8 = kani::any();
    let s = [c];
    let m = encode::best_encoding(&s);
    if in_alnum_set(c) {
        assert!(m != Mode::Byte);
        assert_eq!(encode::ascii_to_alphanumeric(c), alnum_value(c));
    } else {
        assert!(m == Mode::Byte);
    }
    kani::cover!(c == b':');
}
