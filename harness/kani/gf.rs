use crate::polynomials;

fn gf_mul(mut a: u16, mut b: u16) -> u16 {
    let mut r = 0u16;
    let mut i = 0;
    while i < 8 {
        if b & 1 != 0 {
            r ^= a;
        }
        a <<= 1;
        if a & 0x100 != 0 {
            a ^= 0x11D;
        }
        b >>= 1;
        i += 1;
    }
    r
}

fn gf_pow2(e: u8) -> u16 {
    let mut r = 1u16;
    let mut i = 0;
    while i < e {
        r = gf_mul(r, 2);
        i += 1;
    }
    r
}

/// C07 kernel, independent of the MIR engine's normaliser: one division step multiplies by alpha^e
/// (division(&[a], &[0, e]) leaves a * alpha^e in the last cell) for every byte a and exponent e < 255
#[kani::proof]
#[kani::unwind(256)]
fn c07_gf_multiply_kernel() {
    let a: u8 = kani::any();
    let e: u8 = kani::any();
    kani::assume(e < 255);
    let r = polynomials::division(&[a], &[0, e]);
    assert_eq!(r[254] as u16, gf_mul(a as u16, gf_pow2(e)));
    assert_eq!(r[253], 0);
    kani::cover!(a == 0);
    kani::cover!(a == 255 && e == 254);
}
