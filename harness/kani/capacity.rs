use super::*;
use crate::hardcode;

fn payload_bits(mode: usize, len: usize) -> usize {
    match mode {
        0 => 10 * (len / 3) + [0, 4, 7][len % 3],
        1 => 11 * (len / 2) + 6 * (len % 2),
        _ => 8 * len,
    }
}

fn fits(v: usize, l: usize, mode: usize, len: usize) -> bool {
    4 + iso_cci_bits(v, mode) + payload_bits(mode, len) <= 8 * iso_data_codewords(v, l)
}

/// reference: smallest version (index) whose ISO capacity holds `len` characters
fn min_version(l: usize, mode: usize, len: usize) -> Option<usize> {
    let mut v = 0;
    while v < 40 {
        if fits(v, l, mode, len) {
            return Some(v);
        }
        v += 1;
    }
    None
}

fn check_get(mode: usize, l: usize) {
    let len: usize = kani::any();
    kani::assume(len <= 1 << 40);
    let got = Version::get(MODES[mode], ECLS[l], len as _).map(|v| v as usize);
    let want = min_version(l, mode, len);
    assert_eq!(got, want);
    // monotonicity: every version at least as large as the chosen one still holds the payload, so a larger
    // forced version never makes add_terminator's subtraction wrap
    if let Some(g) = got {
        let w: usize = kani::any();
        kani::assume(w >= g && w < 40);
        assert!(fits(w, l, mode, len));
        assert!(4 + hardcode::cci_bits(VERSIONS[w], MODES[mode]) + payload_bits(mode, len) <= hardcode::data_bits(VERSIONS[w], ECLS[l]));
    }
    kani::cover!(got.is_none());
    kani::cover!(got == Some(39));
    kani::cover!(got == Some(0));
}

/// lengths beyond 2^40 (the rest of usize): always "too big"
fn check_get_huge(mode: usize, l: usize) {
    let len: usize = kani::any();
    kani::assume(len > 1 << 40);
    assert!(Version::get(MODES[mode], ECLS[l], len as _).is_none());
}

macro_rules! get_harness {
    ($name:ident, $huge:ident, $m:expr, $l:expr) => {
        #[kani::proof]
        #[kani::unwind(41)]
        fn $name() { check_get($m, $l); }
        #[kani::proof]
        fn $huge() { check_get_huge($m, $l); }
    };
}
get_harness!(c05_get_numeric_l, c05_huge_numeric_l, 0, 0);
get_harness!(c05_get_numeric_m, c05_huge_numeric_m, 0, 1);
get_harness!(c05_get_numeric_q, c05_huge_numeric_q, 0, 2);
get_harness!(c05_get_numeric_h, c05_huge_numeric_h, 0, 3);
get_harness!(c05_get_alnum_l, c05_huge_alnum_l, 1, 0);
get_harness!(c05_get_alnum_m, c05_huge_alnum_m, 1, 1);
get_harness!(c05_get_alnum_q, c05_huge_alnum_q, 1, 2);
get_harness!(c05_get_alnum_h, c05_huge_alnum_h, 1, 3);
get_harness!(c05_get_byte_l, c05_huge_byte_l, 2, 0);
get_harness!(c05_get_byte_m, c05_huge_byte_m, 2, 1);
get_harness!(c05_get_byte_q, c05_huge_byte_q, 2, 2);
get_harness!(c05_get_byte_h, c05_huge_byte_h, 2, 3);
