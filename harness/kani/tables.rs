use super::*;
use crate::hardcode;

fn bch_format(level_bits: u32, mask: u32) -> u32 {
    let data = (level_bits << 3) | mask;
    let mut rem = data;
    let mut i = 0;
    while i < 10 {
        rem = (rem << 1) ^ ((rem >> 9) * 0x537);
        i += 1;
    }
    ((data << 10) | rem) ^ 0x5412
}

fn bch_version(ver: u32) -> u32 {
    let mut rem = ver;
    let mut i = 0;
    while i < 12 {
        rem = (rem << 1) ^ ((rem >> 11) * 0x1F25);
        i += 1;
    }
    (ver << 12) | rem
}

/// C04: the 32-entry format information table is BCH(15,5)(level bits, mask) xor 101010000010010
#[kani::proof]
#[kani::unwind(11)]
fn c04_format_information_table() {
    let l = any_level_index();
    let m: usize = kani::any();
    kani::assume(m < 8);
    const LEVEL_BITS: [u32; 4] = [1, 0, 3, 2]; // L, M, Q, H (Table 12)
    let got = hardcode::ecm_to_format_information(ECLS[l], MASKS[m]) as u32;
    assert_eq!(got, bch_format(LEVEL_BITS[l], m as u32));
    kani::cover!(l == 3 && m == 7);
}

/// C04: version information is BCH(18,6)(version) for versions 7..40
#[kani::proof]
#[kani::unwind(13)]
fn c04_version_information_table() {
    let v = any_version_index();
    kani::assume(v >= 6);
    assert_eq!(VERSIONS[v].information(), bch_version(v as u32 + 1));
    kani::cover!(v == 39);
}

/// C03: side length and alignment centres follow Annex E for every version
#[kani::proof]
#[kani::unwind(9)]
fn c03_alignment_grid_and_size() {
    let v = any_version_index();
    let ver = v + 1;
    let size = 17 + 4 * ver;
    assert_eq!(VERSIONS[v].size(), size);
    let grid = VERSIONS[v].alignment_patterns_grid();
    if ver == 1 {
        assert!(grid.is_empty());
    } else {
        let n = ver / 7 + 2;
        let step = if ver == 32 { 26 } else { (ver * 4 + n * 2 + 1) / (n * 2 - 2) * 2 };
        assert_eq!(grid.len(), n);
        assert_eq!(grid[0], 6);
        let mut i = 1;
        while i < n {
            // i-th centre from the end: size-7 - (n-1-i)*step
            assert_eq!(grid[i], size - 7 - (n - 1 - i) * step);
            i += 1;
        }
    }
    kani::cover!(ver == 32);
    kani::cover!(ver == 40);
}

/// C02: block layout table, data-codeword counts, totals, remainder bits and generator degree equal ISO Table 9
#[kani::proof]
#[kani::unwind(4)]
fn c02_block_layout_tables() {
    let v = any_version_index();
    let l = any_level_index();
    let total = raw_data_modules(v + 1) / 8;
    let rem = raw_data_modules(v + 1) % 8;
    let nb = NUM_BLOCKS[l][v] as usize;
    let ec = EC_PER_BLOCK[l][v] as usize;
    let short = total / nb;
    let n_long = total % nb;
    let n_short = nb - n_long;
    let [(g1c, g1s), (g2c, g2s)] = hardcode::ecc_to_groups(ECLS[l], VERSIONS[v]);
    assert_eq!(g1c, n_short);
    assert_eq!(g1s, short - ec);
    if n_long > 0 {
        assert_eq!(g2c, n_long);
        assert_eq!(g2s, short + 1 - ec);
    } else {
        assert_eq!(g2c, 0);
    }
    assert_eq!(hardcode::data_codewords(VERSIONS[v], ECLS[l]), total - ec * nb);
    assert_eq!(hardcode::data_bits(VERSIONS[v], ECLS[l]), 8 * (total - ec * nb));
    assert_eq!(VERSIONS[v].max_bytes(), total);
    assert_eq!(VERSIONS[v].missing_bits(), rem);
    assert_eq!(hardcode::get_polynomial(VERSIONS[v], ECLS[l]).len(), ec + 1);
    kani::cover!(v == 39 && l == 3);
    kani::cover!(n_long > 0);
}

/// C06: character-count indicator widths per version class and mode
#[kani::proof]
fn c06_cci_bits() {
    let v = any_version_index();
    let m: usize = kani::any();
    kani::assume(m < 3);
    assert_eq!(hardcode::cci_bits(VERSIONS[v], MODES[m]), iso_cci_bits(v, m));
    kani::cover!(v == 26 && m == 0);
}
