// placeholder
