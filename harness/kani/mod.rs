//! Kani proof harnesses, compiled inside the scratch overlay of fast_qr (cfg(kani)); never part of /repo.
//! The reference side of every harness is written from ISO/IEC 18004 and does not call the code under test.
#![allow(dead_code)]
use crate::datamasking::Mask;
use crate::encode::Mode;
use crate::{Version, ECL};

pub const VERSIONS: [Version; 40] = [
    Version::V01, Version::V02, Version::V03, Version::V04, Version::V05, Version::V06, Version::V07, Version::V08,
    Version::V09, Version::V10, Version::V11, Version::V12, Version::V13, Version::V14, Version::V15, Version::V16,
    Version::V17, Version::V18, Version::V19, Version::V20, Version::V21, Version::V22, Version::V23, Version::V24,
    Version::V25, Version::V26, Version::V27, Version::V28, Version::V29, Version::V30, Version::V31, Version::V32,
    Version::V33, Version::V34, Version::V35, Version::V36, Version::V37, Version::V38, Version::V39, Version::V40,
];
pub const MASKS: [Mask; 8] = [
    Mask::Checkerboard, Mask::HorizontalLines, Mask::VerticalLines, Mask::DiagonalLines,
    Mask::LargeCheckerboard, Mask::Fields, Mask::Diamonds, Mask::Meadow,
];
pub const ECLS: [ECL; 4] = [ECL::L, ECL::M, ECL::Q, ECL::H];
pub const MODES: [Mode; 3] = [Mode::Numeric, Mode::Alphanumeric, Mode::Byte];

pub fn any_version_index() -> usize {
    let v: usize = kani::any();
    kani::assume(v < 40);
    v
}
pub fn any_level_index() -> usize {
    let l: usize = kani::any();
    kani::assume(l < 4);
    l
}

// ---- ISO reference data (Table 9: EC codewords per block, number of blocks; rows L, M, Q, H)
pub const EC_PER_BLOCK: [[u8; 40]; 4] = [
    [7, 10, 15, 20, 26, 18, 20, 24, 30, 18, 20, 24, 26, 30, 22, 24, 28, 30, 28, 28, 28, 28, 30, 30, 26, 28, 30, 30, 30, 30, 30, 30, 30, 30, 30, 30, 30, 30, 30, 30],
    [10, 16, 26, 18, 24, 16, 18, 22, 22, 26, 30, 22, 22, 24, 24, 28, 28, 26, 26, 26, 26, 28, 28, 28, 28, 28, 28, 28, 28, 28, 28, 28, 28, 28, 28, 28, 28, 28, 28, 28],
    [13, 22, 18, 26, 18, 24, 18, 22, 20, 24, 28, 26, 24, 20, 30, 24, 28, 28, 26, 30, 28, 30, 30, 30, 30, 28, 30, 30, 30, 30, 30, 30, 30, 30, 30, 30, 30, 30, 30, 30],
    [17, 28, 22, 16, 22, 28, 26, 26, 24, 28, 24, 28, 22, 24, 24, 30, 28, 28, 26, 28, 30, 24, 30, 30, 30, 30, 30, 30, 30, 30, 30, 30, 30, 30, 30, 30, 30, 30, 30, 30],
];
pub const NUM_BLOCKS: [[u8; 40]; 4] = [
    [1, 1, 1, 1, 1, 2, 2, 2, 2, 4, 4, 4, 4, 4, 6, 6, 6, 6, 7, 8, 8, 9, 9, 10, 12, 12, 12, 13, 14, 15, 16, 17, 18, 19, 19, 20, 21, 22, 24, 25],
    [1, 1, 1, 2, 2, 4, 4, 4, 5, 5, 5, 8, 9, 9, 10, 10, 11, 13, 14, 16, 17, 17, 18, 20, 21, 23, 25, 26, 28, 29, 31, 33, 35, 37, 38, 40, 43, 45, 47, 49],
    [1, 1, 2, 2, 4, 4, 6, 6, 8, 8, 8, 10, 12, 16, 12, 17, 16, 18, 21, 20, 23, 23, 25, 27, 29, 34, 34, 35, 38, 40, 43, 45, 48, 51, 53, 56, 59, 62, 65, 68],
    [1, 1, 2, 4, 4, 4, 5, 6, 8, 8, 11, 11, 16, 16, 18, 16, 19, 21, 25, 25, 25, 34, 30, 32, 35, 37, 40, 42, 45, 48, 51, 54, 57, 60, 63, 66, 70, 74, 77, 81],
];

/// number of data-region modules of version `ver` (1-based), from the symbol geometry
pub fn raw_data_modules(ver: usize) -> usize {
    let mut result = (16 * ver + 128) * ver + 64;
    if ver >= 2 {
        let num_align = ver / 7 + 2;
        result -= (25 * num_align - 10) * num_align - 55;
        if ver >= 7 {
            result -= 36;
        }
    }
    result
}

/// ISO data codewords for (version index, level index)
pub fn iso_data_codewords(v: usize, l: usize) -> usize {
    raw_data_modules(v + 1) / 8 - (EC_PER_BLOCK[l][v] as usize) * (NUM_BLOCKS[l][v] as usize)
}

pub fn iso_cci_bits(v: usize, mode: usize) -> usize {
    let class = if v + 1 <= 9 { 0 } else if v + 1 <= 26 { 1 } else { 2 };
    match mode {
        0 => [10, 12, 14][class],
        1 => [9, 11, 13][class],
        _ => [8, 16, 16][class],
    }
}

mod tables;
mod capacity;
mod encoding;
mod gf;
