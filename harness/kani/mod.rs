//! Kani proof harnesses, compiled inside the scratch overlay of fast_qr (cfg(kani)).
mod tables;
