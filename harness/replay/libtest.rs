//! Small functions over std APIs, compiled into the scratch overlay.  `engine/lib_selftest.py` runs each of them
//! natively and through the MIR executor on the same inputs: the executor's library models are validated against the real
//! standard library, not against my reading of its documentation.
#![allow(dead_code, clippy::all)]
use std::borrow::Cow;
use std::cell::Cell;
use std::sync::OnceLock;

pub fn lt_iter_adaptors(a: &[u8], n: usize) -> Vec<u64> {
    let mut out = Vec::new();
    let b: Vec<u8> = a.iter().rev().copied().collect();
    for (x, y) in a.iter().zip(&b).take(n) {
        out.push((*x as u64) * 256 + *y as u64);
    }
    for c in a.chunks(3) {
        out.push(c.len() as u64 * 1000 + c[0] as u64);
    }
    for w in a.windows(2) {
        out.push((w[0] ^ w[1]) as u64);
    }
    let ce = a.chunks_exact(4);
    out.push(ce.remainder().len() as u64);
    out.push(a.iter().skip(1).step_by(2).map(|x| *x as u64).sum::<u64>());
    out.push(a.iter().enumerate().filter(|(i, _)| i % 3 == 0).count() as u64);
    out
}

pub fn lt_iter_consumers(a: &[u8], n: usize) -> Vec<u64> {
    let mut out = Vec::new();
    out.push(a.iter().all(|c| c.is_ascii_digit()) as u64);
    out.push(a.iter().any(|c| *c == n as u8) as u64);
    out.push(a.iter().position(|c| *c as usize > n).map(|p| p as u64 + 1).unwrap_or(0));
    out.push(a.iter().fold(7u64, |acc, x| acc.wrapping_mul(31).wrapping_add(*x as u64)));
    out.push(a.iter().map(|x| *x as u32).sum::<u32>() as u64);
    out.push(a.iter().copied().max().map(|x| x as u64 + 1).unwrap_or(0));
    out.push(a.iter().copied().min().map(|x| x as u64 + 1).unwrap_or(0));
    out.push(a.iter().last().map(|x| *x as u64 + 1).unwrap_or(0));
    out.push(a.iter().nth(n).map(|x| *x as u64 + 1).unwrap_or(0));
    out.push((0..a.len()).min_by_key(|&i| a[i] / 16).map(|i| i as u64 + 1).unwrap_or(0));
    out.push((0..a.len()).max_by_key(|&i| a[i] / 16).map(|i| i as u64 + 1).unwrap_or(0));
    let mut acc = 0u64;
    a.iter().for_each(|x| acc += *x as u64 * 3);
    out.push(acc);
    out.push(a.iter().len() as u64);
    // by_ref: consumption through the borrowed iterator is visible afterwards (all() stops after the first false element)
    let mut ch = a.chunks_exact(2);
    let first_ok = ch.by_ref().all(|c| c[0] <= c[1]);
    out.push(first_ok as u64 * 100 + ch.count() as u64);
    let mut it = a.iter();
    let firstbig = it.by_ref().position(|c| *c as usize > n);
    out.push(firstbig.map(|p| p as u64 + 1).unwrap_or(0) * 100 + it.count() as u64);
    out
}

pub fn lt_option(a: &[u8], n: usize) -> Vec<u64> {
    let mut out = Vec::new();
    let first = a.first().copied();
    let second = a.get(1).copied();
    out.push(first.or(second).map(|x| x as u64 + 1).unwrap_or(0));
    out.push(first.filter(|x| *x as usize > n).or_else(|| second).map(|x| x as u64 + 1).unwrap_or(0));
    out.push(first.map_or(99, |x| x as u64 * 2));
    out.push(first.is_some_and(|x| x as usize == n) as u64);
    out.push(match first.ok_or(5u8) { Ok(v) => v as u64, Err(e) => 1000 + e as u64 });
    let mut o = first;
    let t = o.take();
    out.push(t.map(|x| x as u64 + 1).unwrap_or(0) * 10 + o.is_some() as u64);
    let mut p = second;
    let old = p.replace(n as u8);
    out.push(old.map(|x| x as u64 + 1).unwrap_or(0) * 1000 + p.unwrap() as u64);
    let mut q: Option<u8> = None;
    *q.get_or_insert_with(|| 9) += 1;
    out.push(q.unwrap() as u64);
    out.push(first.and_then(|x| x.checked_add(n as u8)).map(|x| x as u64 + 1).unwrap_or(0));
    out
}

pub fn lt_ascii(a: &[u8], _n: usize) -> Vec<u64> {
    let mut out = Vec::new();
    for &c in a {
        let ch = char::from(c);
        let bits = (c.is_ascii_digit() as u64)
            | (c.is_ascii_uppercase() as u64) << 1
            | (c.is_ascii_lowercase() as u64) << 2
            | (c.is_ascii_alphabetic() as u64) << 3
            | (c.is_ascii_alphanumeric() as u64) << 4
            | (c.is_ascii_hexdigit() as u64) << 5
            | (c.is_ascii_punctuation() as u64) << 6
            | (c.is_ascii_graphic() as u64) << 7
            | (c.is_ascii_whitespace() as u64) << 8
            | (c.is_ascii_control() as u64) << 9
            | (c.is_ascii() as u64) << 10
            | (ch.is_ascii_digit() as u64) << 11
            | (ch.is_ascii_uppercase() as u64) << 12;
        out.push(bits * 65536 + (c.to_ascii_uppercase() as u64) * 256 + c.to_ascii_lowercase() as u64);
        out.push(char::from_digit((c % 40) as u32, 36).map(|d| d as u64).unwrap_or(0));
    }
    out
}

pub fn lt_ints(a: &[u8], n: usize) -> Vec<u64> {
    let mut out = Vec::new();
    for &c in a {
        let m = n as u8;
        out.push(c.saturating_sub(m) as u64);
        out.push(c.saturating_add(m) as u64);
        out.push(c.wrapping_add(m) as u64 * 65536 + c.wrapping_sub(m) as u64 * 256 + c.wrapping_mul(m) as u64);
        out.push(c.checked_add(m).map(|x| x as u64 + 1).unwrap_or(0));
        out.push(c.checked_sub(m).map(|x| x as u64 + 1).unwrap_or(0));
        out.push(c.checked_mul(m).map(|x| x as u64 + 1).unwrap_or(0));
        out.push(c.abs_diff(m) as u64);
        out.push((c as usize).div_ceil(n.max(1)) as u64);
        out.push((c as u32 % 7).pow(3) as u64);
        out.push(c.count_ones() as u64 * 1000 + c.leading_zeros() as u64 * 10 + c.trailing_zeros() as u64);
        out.push((c as u16).is_power_of_two() as u64);
        out.push(std::cmp::min(c, m) as u64 * 256 + c.max(m) as u64);
        out.push(u8::try_from(c as usize * 2).map(|x| x as u64 + 1).unwrap_or(0));
        out.push(u16::try_from(c).unwrap() as u64);
    }
    out
}

pub fn lt_slices(a: &[u8], n: usize) -> Vec<u64> {
    let mut out = Vec::new();
    out.push(a.contains(&(n as u8)) as u64);
    out.push(a.is_empty() as u64);
    let k = n.min(a.len());
    let (l, r) = a.split_at(k);
    out.push(l.len() as u64 * 1000 + r.len() as u64);
    out.push((l == &a[..k]) as u64 * 2 + (a.len() >= 2 && a[..1] != a[1..2]) as u64);
    out.push(a.starts_with(&[n as u8]) as u64 * 2 + a.ends_with(l) as u64);
    let mut v = a.to_vec();
    v.reverse();
    if v.len() >= 2 {
        v.swap(0, 1);
    }
    out.extend(v.iter().map(|x| *x as u64));
    v.truncate(k);
    v.extend_from_slice(&[1, 2, 3]);
    out.push(v.len() as u64);
    out.push(v.pop().unwrap() as u64);
    v.extend(a.iter().take(2));
    out.push(v.len() as u64);
    let mut w = vec![5u8; 4];
    w.fill(n as u8);
    out.push(w.iter().map(|x| *x as u64).sum::<u64>());
    v.clear();
    out.push(v.len() as u64);
    let mut x = 3u64;
    let mut y = n as u64;
    std::mem::swap(&mut x, &mut y);
    let z = std::mem::replace(&mut x, 77);
    let t = std::mem::take(&mut y);
    out.push(x * 1_000_000 + z * 1000 + t + y);
    out
}

pub fn lt_cells(a: &[u8], n: usize) -> Vec<u64> {
    let mut out = Vec::new();
    let c = Cell::new(n as u64);
    c.set(c.get() + a.len() as u64);
    out.push(c.replace(4));
    out.push(c.get());
    let co: Cell<Option<u8>> = Cell::new(a.first().copied());
    out.push(co.take().map(|x| x as u64 + 1).unwrap_or(0));
    out.push(co.get().is_some() as u64);
    let o: OnceLock<u64> = OnceLock::new();
    out.push(o.get().is_some() as u64);
    if n % 2 == 0 {
        out.push(o.set(11).is_ok() as u64);
    }
    out.push(o.set(12).is_ok() as u64);
    out.push(*o.get_or_init(|| 13));
    out.push(o.get().copied().unwrap_or(0));
    out
}

pub fn lt_str(a: &[u8], n: usize) -> Vec<u64> {
    // `a` is ASCII here (the caller keeps it below 0x80)
    let mut out = Vec::new();
    let s = std::str::from_utf8(a).unwrap_or("");
    out.push(s.len() as u64);
    out.push(s.starts_with("ab") as u64 * 8 + s.ends_with("yz") as u64 * 4 + s.starts_with('a') as u64 * 2 + s.ends_with('z') as u64);
    out.push(s.strip_prefix('#').map(|r| r.len() as u64 + 1).unwrap_or(0));
    out.push(s.strip_prefix("da").map(|r| r.len() as u64 + 1).unwrap_or(0));
    out.push(s.contains('q') as u64);
    let k = n.min(s.len());
    out.push(s[..k].len() as u64 * 100 + s[k..].len() as u64);
    let c: Cow<str> = if n % 2 == 0 { Cow::Borrowed(s) } else { Cow::Owned(s.to_uppercase_ascii_lossy()) };
    let t = format!("<{}>", c);
    out.push(t.len() as u64);
    out.extend(t.bytes().map(|b| b as u64));
    out
}

trait AsciiUpper {
    fn to_uppercase_ascii_lossy(&self) -> String;
}
impl AsciiUpper for str {
    fn to_uppercase_ascii_lossy(&self) -> String {
        let mut o = String::new();
        for b in self.bytes() {
            o.push(char::from(b.to_ascii_uppercase()));
        }
        o
    }
}

pub fn lt_utf8(a: &[u8], n: usize) -> Vec<u64> {
    // arbitrary bytes: validity, and byte-offset slicing where it is a boundary
    let mut out = Vec::new();
    match std::str::from_utf8(a) {
        Ok(s) => {
            out.push(1);
            out.push(s.len() as u64);
            let k = n.min(s.len());
            out.push(s.is_char_boundary(k) as u64);
            if s.is_char_boundary(k) {
                out.push(s[..k].len() as u64);
            }
        }
        Err(_) => out.push(0),
    }
    for c in a.chunks_exact(2) {
        out.push(std::str::from_utf8(c).ok().and_then(|x| u8::from_str_radix(x, 16).ok()).map(|v| v as u64 + 1).unwrap_or(0));
    }
    out
}

pub fn run(name: &str, a: &[u8], n: usize) -> Option<Vec<u64>> {
    Some(match name {
        "iter_adaptors" => lt_iter_adaptors(a, n),
        "iter_consumers" => lt_iter_consumers(a, n),
        "option" => lt_option(a, n),
        "ascii" => lt_ascii(a, n),
        "ints" => lt_ints(a, n),
        "slices" => lt_slices(a, n),
        "cells" => lt_cells(a, n),
        "str" => lt_str(a, n),
        "utf8" => lt_utf8(a, n),
        _ => return None,
    })
}
