fn main() {
    std::panic::set_hook(Box::new(|_| {}));
    fast_qr::verif_replay::main();
}
