#[cfg(fast_qr_verif)]
fn main() {
    std::panic::set_hook(Box::new(|_| {}));
    fast_qr::verif_replay::main();
}

#[cfg(not(fast_qr_verif))]
fn main() {}
