//! svg / wasm replay entries (compiled with --features svg)
use crate::convert::svg::SvgBuilder;
use crate::convert::{Builder, ImageBackgroundShape, Shape};

fn unhex(s: &str) -> Vec<u8> {
    if s == "-" {
        return Vec::new();
    }
    (0..s.len() / 2).map(|i| u8::from_str_radix(&s[2 * i..2 * i + 2], 16).unwrap()).collect()
}

fn hex(b: &[u8]) -> String {
    let mut s = String::with_capacity(b.len() * 2);
    for x in b {
        s.push_str(&format!("{:02x}", x));
    }
    if s.is_empty() {
        s.push('-');
    }
    s
}

const SHAPES: [Shape; 6] = [Shape::Square, Shape::Circle, Shape::RoundedSquare, Shape::Vertical, Shape::Horizontal, Shape::Diamond];
const ISHAPES: [ImageBackgroundShape; 3] = [ImageBackgroundShape::Square, ImageBackgroundShape::Circle, ImageBackgroundShape::RoundedSquare];

fn rgba(s: &str) -> [u8; 4] {
    let b = unhex(s);
    [b[0], b[1], b[2], b[3]]
}

fn kv<'a>(a: &'a [&'a str], key: &str) -> Option<&'a str> {
    for t in a {
        if let Some(rest) = t.strip_prefix(key) {
            if let Some(v) = rest.strip_prefix('=') {
                return Some(v);
            }
        }
    }
    None
}

#[repr(C)]
struct RLimit {
    cur: u64,
    max: u64,
}
extern "C" {
    fn getrlimit(resource: i32, rlim: *mut RLimit) -> i32;
    fn setrlimit(resource: i32, rlim: *const RLimit) -> i32;
    fn signal(signum: i32, handler: usize) -> usize;
}

/// runs f with the soft RLIMIT_FSIZE lowered to `limit` bytes (Linux x86_64: resource 1, SIGXFSZ 25 ignored so that the
/// write fails with EFBIG instead of killing the process): a write-time fault that lets a prefix through
fn with_fsize_limit<T>(limit: Option<u64>, f: impl FnOnce() -> T) -> T {
    match limit {
        None => f(),
        Some(l) => unsafe {
            let mut old = RLimit { cur: 0, max: 0 };
            getrlimit(1, &mut old);
            signal(25, 1);
            let new = RLimit { cur: l, max: old.max };
            setrlimit(1, &new);
            let r = f();
            setrlimit(1, &old);
            r
        },
    }
}

fn build_svg(a: &[&str]) -> SvgBuilder {
    // order=<setter names, comma separated>: the order in which the setters are called (layer calls `shape`/`shape_color`
    // consume the items of layers= one by one); without it the canonical order below
    let canonical = "margin,background_color,module_color,layers,image,image_background_color,image_background_shape,image_size,image_gap,image_position";
    let order = kv(a, "order").unwrap_or(canonical);
    let mut b = SvgBuilder::default();
    let layer_items: Vec<&str> = kv(a, "layers").map(|l| l.split(',').collect()).unwrap_or_default();
    let mut next_layer = 0usize;
    let mut add_layer = |b: &mut SvgBuilder, item: &str| {
        let mut it = item.split(':');
        let sh = SHAPES[it.next().unwrap().parse::<usize>().unwrap()];
        match it.next() {
            Some(c) => b.shape_color(sh, rgba(c)),
            None => b.shape(sh),
        };
    };
    for step in order.split(',') {
        match step {
            "margin" => { if let Some(m) = kv(a, "margin") { b.margin(m.parse().unwrap()); } }
            "background_color" => { if let Some(c) = kv(a, "bg") { b.background_color(rgba(c)); } }
            "module_color" => { if let Some(c) = kv(a, "fg") { b.module_color(rgba(c)); } }
            "layers" => { while next_layer < layer_items.len() { add_layer(&mut b, layer_items[next_layer]); next_layer += 1; } }
            "shape" | "shape_color" => { if next_layer < layer_items.len() { add_layer(&mut b, layer_items[next_layer]); next_layer += 1; } }
            "image" => { if let Some(i) = kv(a, "image") { b.image(String::from_utf8(unhex(i)).unwrap()); } }
            "image_background_color" => { if let Some(c) = kv(a, "ibg") { b.image_background_color(rgba(c)); } }
            "image_background_shape" => { if let Some(s) = kv(a, "ishape") { b.image_background_shape(ISHAPES[s.parse::<usize>().unwrap()]); } }
            "image_size" => { if let Some(s) = kv(a, "isize") { b.image_size(s.parse().unwrap()); } }
            "image_gap" => { if let Some(s) = kv(a, "igap") { b.image_gap(s.parse().unwrap()); } }
            "image_position" => {
                if let Some(s) = kv(a, "ipos") {
                    let mut it = s.split(',');
                    let x: f64 = it.next().unwrap().parse().unwrap();
                    let y: f64 = it.next().unwrap().parse().unwrap();
                    b.image_position(x, y);
                }
            }
            _ => {}
        }
    }
    b
}

pub fn handle(name: &str, a: &[&str]) -> String {
    match name {
        "svg" => {
            // svg v=<version idx> mod=<hex raw modules> [margin= bg= fg= layers= image= ibg= ishape= isize= igap= ipos=]
            let v: usize = kv(a, "v").unwrap().parse().unwrap();
            let raw = unhex(kv(a, "mod").unwrap());
            let mut qr = crate::QRCode::default(17 + 4 * (v + 1));
            for (i, b) in raw.iter().enumerate() {
                qr.data[i] = crate::Module(*b);
            }
            let before: Vec<u8> = qr.data.iter().map(|m| m.0).collect();
            let s = build_svg(a).to_str(&qr);
            let after: Vec<u8> = qr.data.iter().map(|m| m.0).collect();
            format!("unchanged={} svg={}", before == after, hex(s.as_bytes()))
        }
        "svg_to_file" => {
            let v: usize = kv(a, "v").unwrap().parse().unwrap();
            let raw = unhex(kv(a, "mod").unwrap());
            let mut qr = crate::QRCode::default(17 + 4 * (v + 1));
            for (i, b) in raw.iter().enumerate() {
                qr.data[i] = crate::Module(*b);
            }
            let path = String::from_utf8(unhex(kv(a, "path").unwrap())).unwrap();
            let b = build_svg(a);
            let expect = b.to_str(&qr);
            if kv(a, "garbage").is_some() {
                let _ = std::fs::write(&path, vec![0x5Au8; expect.len()]);
            }
            let limit: Option<u64> = kv(a, "fsize").map(|x| x.parse().unwrap());
            match with_fsize_limit(limit, || b.to_file(&qr, &path)) {
                Ok(()) => {
                    if path.starts_with("/dev/") {
                        // a device swallows the bytes: Ok here means a failed write was reported as success
                        return "OK same=false (device)".to_string();
                    }
                    let got = std::fs::read(&path).unwrap_or_default();
                    format!("OK same={}", got == expect.as_bytes())
                }
                Err(e) => format!("ERR {:?}", e).replace('\n', " "),
            }
        }
        #[cfg(feature = "image")]
        "image_to_file" => {
            // image_to_file v=<v> mod=<hex> path=<hex utf8>: Ok / Err of ImageBuilder::to_file (panics are caught by the caller)
            let v: usize = kv(a, "v").unwrap().parse().unwrap();
            let raw = unhex(kv(a, "mod").unwrap());
            let mut qr = crate::QRCode::default(17 + 4 * (v + 1));
            for (i, b) in raw.iter().enumerate() {
                qr.data[i] = crate::Module(*b);
            }
            let path = String::from_utf8(unhex(kv(a, "path").unwrap())).unwrap();
            let b = crate::convert::image::ImageBuilder::default();
            let limit: Option<u64> = kv(a, "fsize").map(|x| x.parse().unwrap());
            let expect = b.to_bytes(&qr).unwrap_or_default();
            if kv(a, "garbage").is_some() {
                // a file of exactly the size of the encoding, with other content, is already there
                let _ = std::fs::write(&path, vec![0x5Au8; expect.len()]);
            }
            match with_fsize_limit(limit, || b.to_file(&qr, &path)) {
                Ok(()) => {
                    if path.starts_with("/dev/") {
                        return "OK same=false (device)".to_string();
                    }
                    let got = std::fs::read(&path).unwrap_or_default();
                    format!("OK same={} len={}", got == expect, expect.len())
                }
                Err(e) => format!("ERR {:?}", e).replace('\n', " "),
            }
        }
        "wasm_color" => {
            // wasm_color <which 0..2> <hex utf8 string>
            let s = String::from_utf8(unhex(a[2])).unwrap();
            let o = crate::wasm_host::SvgOptions::new();
            let o = match a[1] {
                "0" => o.module_color(s),
                "1" => o.background_color(s),
                _ => o.image_background_color(s),
            };
            format!("{:?}", o).replace('\n', " ")
        }
        "wasm_qr" => hex(&crate::wasm_host::qr(std::str::from_utf8(&unhex(a[1])).unwrap())),
        "wasm_svg" => {
            // wasm_svg <hex content> [size=<s>,<g>] [pos=<hexfloats..>] [image=<hex>] [fg= bg= ibg=<hex utf8 colour strings>] [margin=] [shape=] [ecl=] [version=]
            let content = String::from_utf8(unhex(a[1])).unwrap();
            let mut o = crate::wasm_host::SvgOptions::new();
            if let Some(s) = kv(a, "size") {
                let mut it = s.split(',');
                let x: f64 = it.next().unwrap().parse().unwrap();
                let g: f64 = it.next().unwrap().parse().unwrap();
                o = o.image_size(x, g);
            }
            if let Some(s) = kv(a, "pos") {
                let v: Vec<f64> = if s == "-" { vec![] } else { s.split(',').map(|t| t.parse().unwrap()).collect() };
                o = o.image_position(v);
            }
            if let Some(s) = kv(a, "image") {
                o = o.image(String::from_utf8(unhex(s)).unwrap());
            }
            if let Some(s) = kv(a, "fg") {
                o = o.module_color(String::from_utf8(unhex(s)).unwrap());
            }
            if let Some(s) = kv(a, "bg") {
                o = o.background_color(String::from_utf8(unhex(s)).unwrap());
            }
            if let Some(s) = kv(a, "ibg") {
                o = o.image_background_color(String::from_utf8(unhex(s)).unwrap());
            }
            if let Some(s) = kv(a, "margin") {
                o = o.margin(s.parse().unwrap());
            }
            if let Some(s) = kv(a, "shape") {
                o = o.shape(SHAPES[s.parse::<usize>().unwrap()]);
            }
            if let Some(s) = kv(a, "ishape") {
                o = o.image_background_shape(ISHAPES[s.parse::<usize>().unwrap()]);
            }
            hex(crate::wasm_host::qr_svg(&content, o).as_bytes())
        }
        _ => format!("UNKNOWN {}", name),
    }
}
