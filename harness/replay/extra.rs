//! svg / wasm replay entries (need --features svg)
pub fn handle(name: &str, _a: &[&str]) -> String {
    format!("UNKNOWN {}", name)
}
