//! Native replay entry points (compiled into the scratch overlay of fast_qr with
//! `--cfg fast_qr_verif`; never part of /repo).  One request per stdin line, one answer per line.
#![allow(dead_code)]
use crate::compact::CompactQR;
use crate::datamasking::Mask;
use crate::encode::Mode;
use crate::{QRCode, Version, ECL};
use std::io::{BufRead, Write};

fn unhex(s: &str) -> Vec<u8> {
    if s == "-" {
        return Vec::new();
    }
    (0..s.len() / 2).map(|i| u8::from_str_radix(&s[2 * i..2 * i + 2], 16).unwrap()).collect()
}

fn hex(b: &[u8]) -> String {
    let mut s = String::with_capacity(b.len() * 2);
    for x in b {
        s.push_str(&format!("{:02x}", x));
    }
    if s.is_empty() {
        s.push('-');
    }
    s
}

const VERSIONS: [Version; 40] = [
    Version::V01, Version::V02, Version::V03, Version::V04, Version::V05, Version::V06, Version::V07, Version::V08,
    Version::V09, Version::V10, Version::V11, Version::V12, Version::V13, Version::V14, Version::V15, Version::V16,
    Version::V17, Version::V18, Version::V19, Version::V20, Version::V21, Version::V22, Version::V23, Version::V24,
    Version::V25, Version::V26, Version::V27, Version::V28, Version::V29, Version::V30, Version::V31, Version::V32,
    Version::V33, Version::V34, Version::V35, Version::V36, Version::V37, Version::V38, Version::V39, Version::V40,
];
const MASKS: [Mask; 8] = [
    Mask::Checkerboard, Mask::HorizontalLines, Mask::VerticalLines, Mask::DiagonalLines,
    Mask::LargeCheckerboard, Mask::Fields, Mask::Diamonds, Mask::Meadow,
];
const ECLS: [ECL; 4] = [ECL::L, ECL::M, ECL::Q, ECL::H];
const MODES: [Mode; 3] = [Mode::Numeric, Mode::Alphanumeric, Mode::Byte];

fn ver(s: &str) -> Version { VERSIONS[s.parse::<usize>().unwrap()] }
fn ecl(s: &str) -> ECL { ECLS[s.parse::<usize>().unwrap()] }
fn mode(s: &str) -> Mode { MODES[s.parse::<usize>().unwrap()] }
fn mask(s: &str) -> Mask { MASKS[s.parse::<usize>().unwrap()] }
fn opt<T>(s: &str, f: fn(&str) -> T) -> Option<T> { if s == "-" { None } else { Some(f(s)) } }

fn qr_fields(qr: &QRCode) -> String {
    let n = qr.size;
    let raw: Vec<u8> = qr.data[..n * n].iter().map(|m| m.0).collect();
    let tail_dirty = qr.data[n * n..].iter().filter(|m| m.0 != 0).count();
    format!(
        "size={} version={} ecl={} mask={} mode={} tail_dirty={} data={}",
        n,
        qr.version.map(|v| (v as usize).to_string()).unwrap_or("-".into()),
        qr.ecl.map(|v| (v as usize).to_string()).unwrap_or("-".into()),
        qr.mask.map(|v| (v as usize).to_string()).unwrap_or("-".into()),
        qr.mode.map(|v| (v as usize).to_string()).unwrap_or("-".into()),
        tail_dirty,
        hex(&raw)
    )
}

fn qr_from(v: Version, raw: &[u8]) -> QRCode {
    let mut qr = QRCode::default(v.size());
    for (i, b) in raw.iter().enumerate() {
        qr.data[i] = crate::Module(*b);
    }
    qr
}

fn handle(line: &str) -> String {
    let a: Vec<&str> = line.split_whitespace().collect();
    match a[0] {
        "division" => {
            let r = crate::polynomials::division(&unhex(a[1]), crate::hardcode::get_polynomial(ver(a[2]), ecl(a[3])));
            hex(&r)
        }
        "division_raw" => {
            let r = crate::polynomials::division(&unhex(a[1]), &unhex(a[2]));
            hex(&r)
        }
        "get_polynomial" => hex(crate::hardcode::get_polynomial(ver(a[1]), ecl(a[2]))),
        "structure" => {
            let r = crate::polynomials::structure(&unhex(a[1]), ecl(a[2]), ver(a[3]));
            hex(&r)
        }
        "encode" => {
            let c = crate::encode::encode(&unhex(a[1]), ecl(a[2]), mode(a[3]), ver(a[4]));
            format!("len={} data={}", c.len(), hex(c.get_data()))
        }
        "best_encoding" => format!("{}", crate::encode::best_encoding(&unhex(a[1])) as usize),
        "version_get" => {
            let r = Version::get(mode(a[1]), ecl(a[2]), a[3].parse::<usize>().unwrap() as _);
            r.map(|v| (v as usize).to_string()).unwrap_or("-".into())
        }
        "place" => {
            // place <hex stream> <bitlen> <ecl> <version> <mask|->
            let c = CompactQR::from_array(&unhex(a[1]), a[2].parse::<usize>().unwrap());
            let mut m = opt(a[5], mask);
            let qr = crate::placement::place_on_matrix(&c, ecl(a[3]), ver(a[4]), &mut m);
            format!("outmask={} {}", m.map(|v| (v as usize).to_string()).unwrap_or("-".into()), qr_fields(&qr))
        }
        "blank" => qr_fields(&crate::default::create_matrix(ver(a[1]))),
        "mask" => {
            // mask <version> <mask> <hex raw modules n*n>
            let mut qr = qr_from(ver(a[1]), &unhex(a[3]));
            crate::datamasking::mask(&mut qr, mask(a[2]));
            qr_fields(&qr)
        }
        "score" => {
            let qr = qr_from(ver(a[1]), &unhex(a[2]));
            let t = crate::default::transpose(&qr);
            format!("{}", crate::score::score(&qr, &t))
        }
        "score2" => {
            // score <version> <hex matrix> <hex second matrix passed as transpose argument>
            let qr = qr_from(ver(a[1]), &unhex(a[2]));
            let t = qr_from(ver(a[1]), &unhex(a[3]));
            format!("{}", crate::score::score(&qr, &t))
        }
        "build" => {
            // build <hex input> <ecl|-> <version|-> <mode|-> <mask|->
            let r = QRCode::new(&unhex(a[1]), opt(a[2], ecl), opt(a[3], ver), opt(a[4], mode), opt(a[5], mask));
            match r {
                Ok(qr) => format!("OK {}", qr_fields(&qr)),
                Err(crate::qr::QRCodeError::EncodedData) => "ERR EncodedData".into(),
                Err(crate::qr::QRCodeError::SpecifiedVersion) => "ERR SpecifiedVersion".into(),
            }
        }
        "purity" => {
            // purity <hex input>: the same build through different histories and from several threads
            use crate::qr::QRBuilder;
            let input = unhex(a[1]);
            let fields = |q: &QRCode| qr_fields(q);
            let base = match QRBuilder::new(input.clone()).ecl(ECL::M).build() {
                Ok(q) => fields(&q),
                Err(_) => "ERR".to_string(),
            };
            let mut same = true;
            // setter order and overwritten values: last value wins
            let mut b = QRBuilder::new(input.clone());
            b.ecl(ECL::H).mask(Mask::Meadow).ecl(ECL::L).version(Version::V40).ecl(ECL::M);
            let mut b2 = QRBuilder::new(input.clone());
            b2.version(Version::V40).mask(Mask::Meadow).ecl(ECL::M);
            let r1 = b.build().map(|q| fields(&q)).unwrap_or("ERR".into());
            let r2 = b2.build().map(|q| fields(&q)).unwrap_or("ERR".into());
            same &= r1 == r2;
            // builder reuse and unrelated builds in between
            let mut b3 = QRBuilder::new(input.clone());
            b3.ecl(ECL::M);
            let x1 = b3.build().map(|q| fields(&q)).unwrap_or("ERR".into());
            let _ = QRBuilder::new("something else entirely 1234567890").ecl(ECL::H).build();
            let _ = QRBuilder::new(vec![0u8; 500]).build();
            let x2 = b3.build().map(|q| fields(&q)).unwrap_or("ERR".into());
            same &= x1 == base && x2 == base;
            // threads
            let mut hs = Vec::new();
            for t in 0..8 {
                let inp = input.clone();
                hs.push(std::thread::spawn(move || {
                    let mut out = Vec::new();
                    for k in 0..4 {
                        if (t + k) % 2 == 0 {
                            let _ = QRBuilder::new(vec![(t * 16 + k) as u8; 30 + t]).build();
                        }
                        out.push(QRBuilder::new(inp.clone()).ecl(ECL::M).build().map(|q| qr_fields(&q)).unwrap_or("ERR".into()));
                    }
                    out
                }));
            }
            for h in hs {
                for r in h.join().unwrap() {
                    same &= r == base;
                }
            }
            // size order on one thread: a large symbol (and its text rendering) first, then this input; compared with
            // the same build and rendering on a fresh thread (caches keyed by nothing, reused buffers)
            let render = |inp: Vec<u8>, big_first: bool| -> String {
                if big_first {
                    if let Ok(q) = QRBuilder::new(vec![0x5Au8; 400]).ecl(ECL::L).build() {
                        let _ = q.to_str();
                    }
                    if let Ok(q) = QRBuilder::new("0123456789012345678901234567890123456789").ecl(ECL::H).build() {
                        let _ = q.to_str();
                    }
                }
                match QRBuilder::new(inp).ecl(ECL::M).build() {
                    Ok(q) => format!("{}|{}", qr_fields(&q), hex(q.to_str().as_bytes())),
                    Err(_) => "ERR".to_string(),
                }
            };
            let i1 = input.clone();
            let i2 = input.clone();
            let fresh = std::thread::spawn(move || render(i1, false)).join().unwrap();
            let after_big = std::thread::spawn(move || render(i2, true)).join().unwrap();
            let mut why = String::new();
            if fresh != after_big {
                same = false;
                why = " (differs after a larger symbol was built and rendered on the same thread)".to_string();
            }
            format!("same={}{}", same, why)
        }
        "repeat" => {
            // repeat <level 0..3>: every two-digit numeric input built 6 times on this thread; any run-to-run difference
            // (randomly seeded hashers, address-dependent ordering) is reported with the input
            use crate::qr::QRBuilder;
            let l = ecl(a[1]);
            for i in 0..100u32 {
                let inp = format!("{:02}", i);
                let first = QRBuilder::new(inp.clone()).ecl(l).build().map(|q| qr_fields(&q)).unwrap_or("ERR".into());
                for _ in 0..5 {
                    let again = QRBuilder::new(inp.clone()).ecl(l).build().map(|q| qr_fields(&q)).unwrap_or("ERR".into());
                    if again != first {
                        let pick = |s: &str| s.split(" data=").next().unwrap_or("").to_string();
                        return format!("same=false input={} first=[{}] again=[{}]", inp, pick(&first), pick(&again));
                    }
                }
            }
            "same=true".to_string()
        }
        "libtest" => {
            // libtest <name> <hex bytes> <n>: a small function over std APIs (harness/replay/libtest.rs)
            match libtest::run(a[1], &unhex(a[2]), a[3].parse().unwrap()) {
                Some(v) => v.iter().map(|x| x.to_string()).collect::<Vec<_>>().join(","),
                None => "ERR unknown libtest".to_string(),
            }
        }
        "history" => {
            // history <hex input> <op,op,..>: ops b (build), m<i> e<i> v<i> k<i> (mode/ecl/version/mask setters) applied to
            // ONE builder; the last build is compared with a fresh builder configured with the final option state
            use crate::qr::QRBuilder;
            let input = unhex(a[1]);
            let mut b = QRBuilder::new(input.clone());
            let (mut fm, mut fe, mut fv, mut fk): (Option<Mode>, Option<ECL>, Option<Version>, Option<Mask>) = (None, None, None, None);
            let mut last = String::from("none");
            for op in a[2].split(',') {
                let (c, rest) = op.split_at(1);
                match c {
                    "b" => last = b.build().map(|q| qr_fields(&q)).unwrap_or("ERR".into()),
                    "m" => { fm = Some(mode(rest)); b.mode(mode(rest)); }
                    "e" => { fe = Some(ecl(rest)); b.ecl(ecl(rest)); }
                    "v" => { fv = Some(ver(rest)); b.version(ver(rest)); }
                    "k" => { fk = Some(mask(rest)); b.mask(mask(rest)); }
                    _ => return "ERR bad op".to_string(),
                }
            }
            let mut f = QRBuilder::new(input);
            if let Some(x) = fm { f.mode(x); }
            if let Some(x) = fe { f.ecl(x); }
            if let Some(x) = fv { f.version(x); }
            if let Some(x) = fk { f.mask(x); }
            let fresh = f.build().map(|q| qr_fields(&q)).unwrap_or("ERR".into());
            let pick = |s: &str| s.split(" data=").next().unwrap_or("").to_string();
            format!("same={} reused=[{}] fresh=[{}]", last == fresh, pick(&last), pick(&fresh))
        }
        "to_str" => {
            let qr = qr_from(ver(a[1]), &unhex(a[2]));
            hex(qr.to_str().as_bytes())
        }
        other => extra::handle(other, &a),
    }
}

#[path = "extra.rs"]
mod extra;

#[path = "libtest.rs"]
pub mod libtest;

pub fn main() {
    let stdin = std::io::stdin();
    let out = std::io::stdout();
    for line in stdin.lock().lines() {
        let line = line.unwrap();
        if line.trim().is_empty() {
            continue;
        }
        let l2 = line.clone();
        let r = std::panic::catch_unwind(move || handle(&l2));
        let mut o = out.lock();
        match r {
            Ok(s) => writeln!(o, "{}", s).unwrap(),
            Err(e) => {
                let msg = if let Some(s) = e.downcast_ref::<String>() {
                    s.clone()
                } else if let Some(s) = e.downcast_ref::<&str>() {
                    s.to_string()
                } else {
                    "?".to_string()
                };
                writeln!(o, "PANIC {}", msg.replace('\n', " ")).unwrap()
            }
        }
        o.flush().unwrap();
    }
}
