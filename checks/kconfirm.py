"""Native confirmation of Kani counterexamples: the concrete-playback values are turned into replay requests."""
from engine import iso
from engine import overlay as OV


def version_get(mode, level):
    def conf(values, native):
        n = values[0]
        ans = native.ask('version_get %d %d %d' % (mode, level, n))
        want = iso.min_version(iso.LEVELS[level], iso.MODES[mode], n) if n < 10000 else None
        got = None if ans == '-' else int(ans) + 1
        replay = {'request': 'version_get %d %d %d' % (mode, level, n), 'expect': want}
        if ans.startswith('PANIC') or ans == 'ABORT':
            return True, 'Version::get panics for %s/%s length %d' % (iso.MODES[mode], iso.LEVELS[level], n), replay
        if got != want:
            return True, ('for %d %s characters at level %s the version chosen is %s, the smallest sufficient ISO version is %s'
                          % (n, iso.MODES[mode], iso.LEVELS[level], got, want)), replay
        # monotonicity part: second value is the larger version w
        if len(values) > 1 and want is not None:
            w = values[1] + 1
            if not iso.fits(w, iso.LEVELS[level], iso.MODES[mode], n):
                return True, 'payload of %d %s characters fits version %d but not the larger version %d at level %s' % (
                    n, iso.MODES[mode], want, w, iso.LEVELS[level]), replay
        return False, 'kani counterexample (len=%d) not reproduced natively' % n, replay
    return conf


def table_cell(kind):
    """generic: tables are confirmed by re-reading the crate's table through the native build in the check itself"""
    return None


def best_encoding(raw, native):
    """concrete playback: the buffer (one vector per byte, or one vector for the whole array), then len (8 bytes little endian)"""
    buf = [x for part in raw[:-1] for x in part]
    n = sum(x << (8 * i) for i, x in enumerate(raw[-1]))
    s = bytes(buf[:n])
    ans = native.ask('best_encoding %s' % OV.hexs(s))
    if all(0x30 <= c <= 0x39 for c in s):
        want = 0
    elif all(chr(c) in iso.ALNUM for c in s):
        want = 1
    else:
        want = 2
    replay = {'request': 'best_encoding %s' % OV.hexs(s), 'expect': want}
    if ans.startswith('PANIC') or ans == 'ABORT':
        return True, 'best_encoding panics on %r' % s, replay
    if int(ans) != want:
        return True, 'automatic mode for %r is %s, the most compact mode that can represent it is %s' % (s, iso.MODES[int(ans)], iso.MODES[want]), replay
    return False, 'kani counterexample %r not reproduced natively' % s, replay


def alnum_value(raw, native):
    c = raw[0][0]
    s = bytes([c])
    ans = native.ask('best_encoding %s' % OV.hexs(s))
    inset = chr(c) in iso.ALNUM
    replay = {'request': 'build %s - - 1 -' % OV.hexs(s)}
    if ans.isdigit() and (int(ans) != 2) != inset:
        return True, 'byte 0x%02x: classifier says %s, membership in the 45-character set is %s' % (c, iso.MODES[int(ans)], inset), replay
    if inset:
        # value table: encode the single character in alphanumeric mode and read the 6-bit value back
        a2 = native.ask('encode %s 0 1 0' % OV.hexs(s))
        if a2.startswith('PANIC') or a2 == 'ABORT':
            return True, 'alphanumeric value table rejects %r which the classifier accepts (%s)' % (chr(c), a2[:60]), replay
        f = OV.parse_fields(a2)
        data = bytes.fromhex(f['data'])
        bits = ''.join(format(b, '08b') for b in data)
        val = int(bits[4 + 9:4 + 9 + 6], 2)
        if val != iso.ALNUM.index(chr(c)):
            return True, 'alphanumeric value of %r is %d, ISO value is %d' % (chr(c), val, iso.ALNUM.index(chr(c))), replay
    return False, 'kani counterexample byte 0x%02x not reproduced natively' % c, replay


def gf_kernel(values, native):
    """values: a (u8), e (u8 < 255): division(&[a], &[0, e]) must leave a * alpha^e in the last cell"""
    a, e = values[0] & 0xFF, values[1] & 0xFF
    req = 'division_raw %02x %s' % (a, bytes([0, e]).hex())
    ans = native.ask(req)
    if ans.startswith('PANIC') or ans == 'ABORT':
        return True, 'division panics on a one-byte block: %s' % ans[:80], {'request': req}
    out = bytes.fromhex(ans)
    want = iso.gf_mul(a, iso.gf_pow2(e))
    if out[254] != want or out[253] != 0:
        return True, 'GF(256) multiply step: %d * alpha^%d gives %d, expected %d' % (a, e, out[254], want), {'request': req}
    return False, 'kani counterexample (a=%d, e=%d) not reproduced' % (a, e), {'request': req}
