"""C19 - file output is all-or-error (DESIGN.md 4/C19).

SvgBuilder::to_file and ImageBuilder::to_file are executed with the I/O calls replaced by environment stubs whose
outcome is an arbitrary Ok/Err (one fresh boolean per call).  Obligations: Ok(()) is returned exactly when every
stubbed call returned Ok, the bytes handed to write_all are exactly the rendering's, every Err is returned as the
IoError variant carrying the failing call's error, and no panic obligation is met on any path."""
import sys
import os

sys.path.insert(0, os.path.dirname(os.path.dirname(os.path.abspath(__file__))))
from checks.common import *          # noqa: F401,F403
from engine.mirsym import SliceRef, Ptr, L


def sym_result(I, name, ok_payload, err_tag):
    fail = T.var(name, 1)
    err = I.mk([T.var('errid_' + name, 8)], err_tag)       # opaque error value with a symbolic identity
    return I.mk([T.zext(1, 64, fail), {0: I.mk([ok_payload]), 1: I.mk([err])}], 'symenum'), fail, err


def job_svg(job):
    prog = worker_prog()
    res = {'evaluations': 0, 'obligations': 0, 'discharged': 0, 'failures': [], 'nontrivial': [], 'samples': [],
           'validation': {'cases': 0, 'disagreements': 0}, 'vacuity': 0,
           'stubs': ['SvgBuilder::to_str -> an uninterpreted String S', 'File::create -> arbitrary Ok(file)/Err(e1)',
                     'Write::write_all on File -> arbitrary Ok(())/Err(e2); on success the file holds the bytes written',
                     'BufWriter<File>: write_all either buffers (Ok, no I/O) or writes through (arbitrary outcome); flush writes the pending bytes '
                     '(arbitrary outcome); dropping it attempts the pending write and swallows a failure (std documented behaviour)']}
    I = M.Interp(prog)
    log = {'writes': [], 'files': []}
    S0 = I.lib.new_string([T.zext(8, 32, T.var('content%d' % i, 8, below=128)) for i in range(4)])
    counter = [0]

    def fresh(name):
        counter[0] += 1
        return T.var('%s_%d' % (name, counter[0]), 1)

    def is_rendering(bytes_ref):
        return type(bytes_ref) is SliceRef and bytes_ref.c is S0[0] and bytes_ref.start == 0 and bytes_ref.len == len(S0[0])

    def stub_to_str(I_, args):
        log['to_str'] = log.get('to_str', 0) + 1
        return S0

    def stub_create(I_, args):
        fail = T.var('create_fails', 1)
        err = I_.mk([T.var('errid_create', 8)], 'IoError')
        # File: [holds exactly the rendering (width-1), something other than the rendering was ever written (width-1),
        #        content from before the open survives around what is written (width-1; File::create truncates -> 0)]
        f = I_.mk([0, 0, 0], 'File')
        log['files'].append(f)
        log['create'] = (tuple(I_.pc), fail, err)
        return I_.mk([T.zext(1, 64, fail), {0: I_.mk([f]), 1: I_.mk([err])}], 'symenum')

    def raw_write(I_, f, bytes_ref, ok):
        """a write of bytes_ref reaches the file iff ok"""
        if is_rendering(bytes_ref):
            I_.write(f, 0, T.ite(1, ok, T.land(T.lnot(f[1]), T.lnot(f[2])), f[0]))
        else:
            I_.write(f, 1, T.lor(f[1], ok))
            I_.write(f, 0, T.land(f[0], T.lnot(ok)))

    def stub_write_file(I_, args):
        f = args[0].c[args[0].k]
        fail = fresh('write_fails')
        err = I_.mk([T.var('errid_write', 8)], 'IoError')
        log['writes'].append((tuple(I_.pc), 'file', fail, err, args[1]))
        raw_write(I_, f, args[1], T.lnot(fail))
        return I_.mk([T.zext(1, 64, fail), {0: I_.mk([()]), 1: I_.mk([err])}], 'symenum')

    # OpenOptions: [read, write, append, truncate, create, create_new] as set by the builder calls (concrete booleans)
    OO = {'read': 0, 'write': 1, 'append': 2, 'truncate': 3, 'create': 4, 'create_new': 5}

    def stub_oo_new(I_, args):
        return I_.mk([0, 0, 0, 0, 0, 0], 'OpenOptions')

    def mk_oo_set(field):
        def st(I_, args):
            oo = args[0].c[args[0].k]
            if type(args[1]) is not int:
                raise M.Unsupported('OpenOptions flag set to a symbolic value')
            I_.write(oo, OO[field], args[1])
            return args[0]
        return st

    def stub_oo_open(I_, args):
        oo = args[0].c[args[0].k]
        fail = T.var('create_fails', 1)
        err = I_.mk([T.var('errid_create', 8)], 'IoError')
        # without truncate (or create_new) whatever the file held before survives beyond / before the bytes written:
        # one free boolean "the old content is longer than what is written" (append: "the old content is not empty")
        survives = 0 if (oo[OO['truncate']] or oo[OO['create_new']]) else T.var('old_content_survives', 1)
        f = I_.mk([0, 0, survives], 'File')
        log['files'].append(f)
        log['create'] = (tuple(I_.pc), fail, err)
        log['open_options'] = list(oo)
        return I_.mk([T.zext(1, 64, fail), {0: I_.mk([f]), 1: I_.mk([err])}], 'symenum')

    def stub_fs_write(I_, args):
        # std::fs::write(path, bytes) = File::create + write_all
        cfail = T.var('create_fails', 1)
        wfail = fresh('write_fails')
        err = I_.mk([T.var('errid_write', 8)], 'IoError')
        f = I_.mk([0, 0, 0], 'File')
        log['files'].append(f)
        log['create'] = (tuple(I_.pc), cfail, err)
        b = args[1]
        if type(b) is Ptr:
            b = I_.lib.as_slice(b)
        log['writes'].append((tuple(I_.pc), 'file', wfail, err, b))
        raw_write(I_, f, b, T.land(T.lnot(cfail), T.lnot(wfail)))
        return I_.mk([T.zext(1, 64, T.lor(cfail, wfail)), {0: I_.mk([()]), 1: I_.mk([err])}], 'symenum')

    def stub_bw_new(I_, args):
        return I_.mk([args[0], None, 0], 'BufWriter')          # [file, pending bytes, pending flag]

    def stub_bw_write(I_, args):
        bw = args[0].c[args[0].k]
        through = fresh('bufwriter_writes_through')
        fail = fresh('write_fails')
        err = I_.mk([T.var('errid_write', 8)], 'IoError')
        log['writes'].append((tuple(I_.pc), 'bufwriter', T.land(through, fail), err, args[1]))
        raw_write(I_, bw[0], args[1], T.land(through, T.lnot(fail)))
        I_.write(bw, 1, args[1])
        I_.write(bw, 2, T.lor(bw[2], T.lnot(through)))
        eff_fail = T.land(through, fail)
        return I_.mk([T.zext(1, 64, eff_fail), {0: I_.mk([()]), 1: I_.mk([err])}], 'symenum')

    def stub_bw_flush(I_, args):
        bw = args[0].c[args[0].k]
        fail = fresh('flush_fails')
        err = I_.mk([T.var('errid_flush', 8)], 'IoError')
        pend = bw[2]
        if bw[1] is not None:
            raw_write(I_, bw[0], bw[1], T.land(pend, T.lnot(fail)))
        I_.write(bw, 2, T.land(pend, fail))
        eff = T.land(pend, fail)
        return I_.mk([T.zext(1, 64, eff), {0: I_.mk([()]), 1: I_.mk([err])}], 'symenum')

    def drop_bw(I_, bw):
        if bw[1] is not None:
            hidden_fail = fresh('flush_on_drop_fails')
            raw_write(I_, bw[0], bw[1], T.land(bw[2], T.lnot(hidden_fail)))
            I_.write(bw, 2, 0)
    I.drop_hooks['BufWriter'] = drop_bw
    I.stubs['SvgBuilder::to_str'] = stub_to_str
    I.stubs['std::fs::File::create::<&str>'] = stub_create
    for pre in ('OpenOptions', 'std::fs::OpenOptions'):
        I.stubs[pre + '::new'] = stub_oo_new
        for fld in OO:
            I.stubs['%s::%s' % (pre, fld)] = mk_oo_set(fld)
        I.stubs[pre + '::open::<&str>'] = stub_oo_open
        I.stubs[pre + '::open'] = stub_oo_open
    I.stubs['std::fs::File::options'] = stub_oo_new
    I.stubs['File::options'] = stub_oo_new
    I.stubs['std::fs::File::create_new::<&str>'] = stub_create
    for nm in ('std::fs::write::<&str, String>', 'std::fs::write::<&str, &String>', 'std::fs::write::<&str, &str>', 'std::fs::write::<&str, &[u8]>',
               'std::fs::write::<&str, Vec<u8>>'):
        I.stubs[nm] = stub_fs_write
    for nm in ('<std::fs::File as std::io::Write>::write_all', '<File as std::io::Write>::write_all', '<std::fs::File as Write>::write_all'):
        I.stubs[nm] = stub_write_file
    for nm in ('BufWriter::<std::fs::File>::new', 'BufWriter::<File>::new', 'std::io::BufWriter::<std::fs::File>::new'):
        I.stubs[nm] = stub_bw_new
    for nm in ('<BufWriter<std::fs::File> as std::io::Write>::write_all', '<BufWriter<File> as std::io::Write>::write_all',
               '<std::io::BufWriter<std::fs::File> as std::io::Write>::write_all', '<BufWriter<std::fs::File> as Write>::write_all'):
        I.stubs[nm] = stub_bw_write
    for nm in ('<BufWriter<std::fs::File> as std::io::Write>::flush', '<BufWriter<File> as std::io::Write>::flush',
               '<std::io::BufWriter<std::fs::File> as std::io::Write>::flush', '<BufWriter<std::fs::File> as Write>::flush'):
        I.stubs[nm] = stub_bw_flush
    path = M.OpaqueSlice('path', T.var('path_len', 64, below=1 << 16), True)          # any string
    b = I.mk(['builder'], 'opaque')
    q = I.mk(['qr'], 'opaque')
    cell = I.mk([b, q])
    r = I.call_fn(prog.resolve('SvgBuilder::to_file'), [Ptr(cell, 0), Ptr(cell, 1), path])
    if r is M.DEAD:
        raise Inconclusive('to_file diverges')
    items = []
    c_fail = log['create'][1] if 'create' in log else 0
    items.append(('the rendering is produced', 1 if log.get('to_str') else 0))
    items.append(('File::create is called', 1 if 'create' in log else 0))
    items.append(('a write is attempted', 1 if log['writes'] else 0))
    disc = r[0]
    is_ok = T.eq(64, disc, 0)
    if 'create' in log and log['files']:
        f = log['files'][0]
        for (wpc, kind, w_fail, w_err, wbytes) in log['writes']:
            items.append(('writes are reached only when create succeeded', T.implies(T.and_many(list(wpc)), T.lnot(c_fail))))
        # the heart of the property: Ok(()) only if the file then holds exactly the rendering
        items.append(('Ok(()) only if the file holds exactly the bytes of the rendering', T.implies(is_ok, T.land(T.lnot(c_fail), f[0]))))
        # a failed create or a reported write failure is never turned into Ok
        reported = T.or_many([T.land(T.and_many(list(wpc)), wf) for (wpc, kind, wf, we, wb) in log['writes']])
        items.append(('a failed create or a failed write is returned as Err', T.implies(T.lor(c_fail, reported), T.lnot(is_ok))))
        items.append(('when every call succeeds the result is Ok(())', T.implies(T.land(T.lnot(c_fail), T.lnot(T.or_many([wf for (_, _, wf, _, _) in log['writes']]))), is_ok) if not any(k == 'bufwriter' for (_, k, _, _, _) in log['writes']) else 1))
        errs = r[1].get(1) if r.tag == 'symenum' else None
        if errs is None:
            items.append(('an Err value is representable', 0))
        else:
            e = errs[0]
            idx, dv, nf = prog.variant('SvgError', 'IoError')
            items.append(('every error is SvgError::IoError', T.implies(T.ne(64, disc, 0), T.eq(64, e[0], dv))))
            payload = e[1] if e.tag == 'enum' else e[1].get(dv)[0]
            items.append(('the error carried is an io::Error value', 1 if (type(payload) is L and payload.tag == 'IoError') else 0))
    pan = [('%s@%s: %s' % (o.kind, o.where, o.msg[:40]), T.implies(T.and_many(list(o.pc)), o.cond)) for o in I.obligations]
    return finish_job(res, I, items, pan, 'SvgBuilder::to_file', 'outcome of File::create and of every write (one boolean each), content of the rendering')


def job_image(job):
    prog = worker_prog()
    res = {'evaluations': 0, 'obligations': 0, 'discharged': 0, 'failures': [], 'nontrivial': [], 'samples': [],
           'validation': {'cases': 0, 'disagreements': 0}, 'vacuity': 0,
           'stubs': ['ImageBuilder::to_pixmap -> opaque pixmap', 'Pixmap::save_png -> arbitrary Ok(())/Err(e)',
                     'EncodingError::to_string, io::Error::new -> opaque values']}
    I = M.Interp(prog)
    log = {}

    def stub_pixmap(I_, args):
        log['pixmap'] = log.get('pixmap', 0) + 1
        return I_.mk(['pixmap'], 'Pixmap')

    def stub_save(I_, args):
        r, fail, err = sym_result(I_, 'save_fails', (), 'EncodingError')
        pm = args[0].c[args[0].k]
        log['save'] = (fail, err, pm, args[1])
        return r
    I.stubs['ImageBuilder::to_pixmap'] = stub_pixmap
    I.stubs['Pixmap::save_png::<&str>'] = stub_save
    I.stubs['<png::encoder::EncodingError as ToString>::to_string'] = lambda I_, a: I_.lib.new_string([ord('e')])
    I.stubs['std::io::Error::new::<String>'] = lambda I_, a: I_.mk(['from save_png'], 'IoError')
    # the path is any string: unknown content, symbolic length
    path = M.OpaqueSlice('path', T.var('path_len', 64, below=1 << 16), True)
    cell = I.mk([I.mk(['builder'], 'opaque'), I.mk(['qr'], 'opaque')])
    r = I.call_fn(prog.resolve('ImageBuilder::to_file'), [Ptr(cell, 0), Ptr(cell, 1), path])
    if r is M.DEAD:
        raise Inconclusive('to_file diverges')
    items = [('the pixmap is rendered once', 1 if log.get('pixmap') == 1 else 0), ('save_png is called', 1 if 'save' in log else 0)]
    if 'save' in log:
        fail, err, pm, p_ = log['save']
        items.append(('save_png saves the rendered pixmap', 1 if (type(pm) is L and pm.tag == 'Pixmap') else 0))
        items.append(('save_png gets the caller\'s path', 1 if p_ is path else 0))
        items.append(('Ok(()) iff save_png succeeded', T.eq(1, T.eq(64, r[0], 0), T.lnot(fail))))
        errs = r[1].get(1) if r.tag == 'symenum' else None
        if errs is None:
            items.append(('an Err value is representable', 0))
        else:
            e = errs[0]
            idx, dv, nf = prog.variant('ImageError', 'IoError')
            items.append(('a failed save is returned as ImageError::IoError', T.implies(fail, T.eq(64, e[0], dv))))
    pan = [('%s@%s: %s' % (o.kind, o.where, o.msg[:40]), T.implies(T.and_many(list(o.pc)), o.cond)) for o in I.obligations]
    return finish_job(res, I, items, pan, 'ImageBuilder::to_file', 'outcome of Pixmap::save_png')


def job_convert(job):
    """ConvertError::from(SvgError::IoError(e)) == ConvertError::Io(e); likewise for ImageError"""
    prog = worker_prog()
    res = {'evaluations': 0, 'obligations': 0, 'discharged': 0, 'failures': [], 'nontrivial': [], 'samples': [],
           'validation': {'cases': 0, 'disagreements': 0}, 'vacuity': 0}
    I = M.Interp(prog)
    items = []
    for (ety, var) in (('SvgError', 'IoError'), ('ImageError', 'IoError')):
        idx, dv, nf = prog.variant(ety, var)
        e = I.mk([T.var('errid_%s' % ety, 8)], 'IoError')
        f = prog.resolve('<ConvertError as From<%s>>::from' % ety)
        if f is None:
            items.append(('From<%s> for ConvertError exists' % ety, 0))
            continue
        r = I.call_fn(f, [I.mk([dv, e], 'enum')])
        i2, d2, n2 = prog.variant('ConvertError', 'Io')
        items.append(('ConvertError::from(%s::IoError(e)) is ConvertError::Io(e)' % ety, 1 if (r[0] == d2 and type(r[1]) is L and r[1].tag == 'IoError' and r[1][0] is e[0]) else 0))
    pan = [('%s@%s: %s' % (o.kind, o.where, o.msg[:40]), T.implies(T.and_many(list(o.pc)), o.cond)) for o in I.obligations]
    return finish_job(res, I, items, pan, 'ConvertError::from', 'none (concrete)')


def finish_job(res, I, items, pan, name, free):
    solver = worker_solver(30000, 'z3-new', lut_mode='ite', logic='QF_BV')
    syn, nsolv, fails, unk = discharge(solver, items + pan, eval_search=0, chunk=1)
    res['obligations'] = len(items) + len(pan)
    res['panic_obligations'] = len(pan)
    res['evaluations'] = res['obligations']
    res['discharged'] = res['obligations'] - len(fails) - len(unk)
    res['nontrivial'] = ['%s: %s' % (name, lab) for lab, c in items]
    res['samples'] = [{'entry': name, 'free': free, 'obligations': [lab for lab, _ in items]}]
    if unk and not fails:
        raise Inconclusive('solver unknown: %s' % unk[:2])
    for lab, model in fails[:2]:
        res['failures'].append({'key': 'C19/' + name, 'what': '%s: "%s" does not hold (fault schedule %s)' % (name, lab, model), 'confirmed': False,
                                'obligation': lab, 'model': model})
    res['vacuity'] = 1
    q = solver_counts(solver)
    q['syntactic'] = syn
    res['queries'] = q
    res['solver_time_s'] = solver.time_s
    solver.close()
    res.update(interp_stats(I))
    return res


def confirm_native_image(chk, f):
    """ImageBuilder::to_file on the real file system: a failing save with paths of the length / byte structure of the model"""
    native = chk.native()
    import tempfile
    import shutil
    model = f.get('model') or {}
    d = tempfile.mkdtemp(prefix='fqv-c19-')
    mod = '00' * 441
    out = []
    offs = sorted({int(k.rsplit('_', 1)[1]) for k in model if k.startswith('char_boundary_') and k.rsplit('_', 1)[1].isdigit()} | {40})
    tails = ['a' * 80, '\u00e9' * 60, 'a' + '\u00e9' * 60, '\u20ac' * 40, 'a' + '\u20ac' * 40, 'aa' + '\u20ac' * 40]
    for off in offs:
        # a multi-byte character straddling byte offset `off` of the whole path
        base = os.path.join(d, 'nope') + '/'
        pad = max(0, off - len(base.encode()) - 1)
        tails.append('a' * pad + '\u00e9' * 30)
    for t in tails:
        for pth in (os.path.join(d, 'nope', t), t + '/' + 'x.png'):
            ans = native.ask('image_to_file v=0 mod=%s path=%s' % (mod, pth.encode().hex()))
            out.append((pth[-24:], ans[:90]))
            if ans.startswith('PANIC') or ans == 'ABORT':
                f['confirmed'] = True
                f['what'] += '; native: ImageBuilder::to_file(%r) panics instead of returning Err: %s' % (pth, ans[:90])
                f['replay'] = {'request': 'image_to_file v=0 mod=<441 zero modules> path=%s' % pth.encode().hex()}
                native.close()
                shutil.rmtree(d, ignore_errors=True)
                return f
            if ans.startswith('OK'):
                f['confirmed'] = True
                f['what'] += '; native: ImageBuilder::to_file(%r) into a missing directory returns Ok' % pth
    native.close()
    shutil.rmtree(d, ignore_errors=True)
    f.setdefault('replay', {'native_fault_runs': out[:6]})
    return f


def confirm_native(chk, f):
    """fault replay on the real file system: missing directory / path is a directory / ok path"""
    if 'ImageBuilder' in f.get('key', ''):
        return confirm_native_image(chk, f)
    native = chk.native()
    import tempfile
    d = tempfile.mkdtemp(prefix='fqv-c19-')
    mod = '00' * 441
    out = []
    with open(os.path.join(d, 'old.svg'), 'wb') as fh:
        fh.write(b'x' * 200000)          # longer than any V1 rendering: must not survive
    for label, path, extra_arg in (('ok', os.path.join(d, 'a.svg'), ''), ('ok', os.path.join(d, 'old.svg'), ''),
                                   ('ok', os.path.join(d, 'same-size.svg'), ' garbage=1'),
                                   ('missing directory', os.path.join(d, 'nope', 'a.svg'), ''), ('path is a directory', d, ''), ('device full', '/dev/full', ''),
                                   ('file size limit 1', os.path.join(d, 'l1.svg'), ' fsize=1'), ('file size limit 50', os.path.join(d, 'l2.svg'), ' fsize=50'),
                                   ('ok', os.path.join(d, 'a.png'), ' kind=png'), ('ok', os.path.join(d, 'same-size.png'), ' kind=png garbage=1'),
                                   ('missing directory', os.path.join(d, 'nope', 'a.png'), ' kind=png'), ('file size limit 50', os.path.join(d, 'l.png'), ' kind=png fsize=50')):
        if label == 'device full' and not os.path.exists('/dev/full'):
            continue
        entry = 'image_to_file' if 'kind=png' in extra_arg else 'svg_to_file'
        ans = native.ask('%s v=0 mod=%s path=%s%s' % (entry, mod, path.encode().hex(), extra_arg.replace(' kind=png', '')))
        if ans.startswith('ERR unknown') or ans.startswith('ERR bad'):
            continue
        out.append((label + extra_arg, ans[:80]))
    native.close()
    import shutil
    shutil.rmtree(d, ignore_errors=True)
    bad = [o for o in out if (o[0].startswith('ok') and not o[1].startswith('OK same=true')) or (not o[0].startswith('ok') and not o[1].startswith('ERR'))]
    # a write to /dev/full must not be reported as success
    f['replay'] = {'native_fault_runs': out}
    if bad:
        f['confirmed'] = True
        f['what'] += '; native: %s' % bad
    return f


def main(argv):
    chk = Check('C19', argv, features='image')
    chk.rule = ('one obligation per contract clause of each to_file (outcome iff all calls succeeded, bytes written, error mapping) over the '
                'symbolic outcome of every I/O call, plus panic obligations; non-trivial = all clauses (each is quantified over the fault schedule)')
    chk.load()
    res = run_jobs(job_svg, [0], chk.mir_text, chk.ov.dir, {}) + run_jobs(job_image, [0], chk.mir_text, chk.ov.dir, {}) + \
        run_jobs(job_convert, [0], chk.mir_text, chk.ov.dir, {})
    for r in res:
        for f in r.get('failures', []):
            confirm_native(chk, f)
        chk.absorb(r)
    # native fault replay (real file system) as translator validation of the stubs' contract
    f = {'what': ''}
    confirm_native(chk, f)
    chk.cov['translator_validation']['concrete_cases'] += 3
    chk.cov['native_fault_runs'] = f['replay']['native_fault_runs']
    if f.get('confirmed'):
        chk.failure({'key': 'C19/native', 'what': 'native to_file misbehaves under an injected fault' + f['what'], 'confirmed': True, 'replay': f['replay']})
    chk.bounds += ['every combination of Ok/Err outcomes of File::create, write_all (SVG) and save_png (PNG); rendering content uninterpreted']
    chk.outside += ['what std::fs / tiny-skia do inside those calls: assumed contract "write_all returning Ok means every byte was written", "save_png returning Ok means the file holds the encoded pixmap"',
                    'panics inside ImageBuilder::to_pixmap (third-party rasteriser; see C13)', 'fault kinds are abstracted to "this call returned Err", which is all fast_qr can observe']
    chk.assumptions += ['environment stubs return an arbitrary value of their documented type']
    chk.finish()


if __name__ == '__main__':
    main(sys.argv[1:])
