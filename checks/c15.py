"""C15 - matrix stage check (DESIGN.md 4/C15): type label of every module and the data-label count."""
import sys
import os

sys.path.insert(0, os.path.dirname(os.path.dirname(os.path.abspath(__file__))))
from checks.common import *          # noqa: F401,F403
from checks import xcheck


def main(argv):
    chk = Check('C15', argv, features='svg')
    chk.rule = ('one obligation per module of the n x n symbol (plus the tail of the backing array) per version, over a symbolic '
                'stream/level/mask; non-trivial = every module obligation (the cell was produced by code run with stream, level and mask symbolic and '
                'must nevertheless be the ISO constant); '
                'distinct by (version, mode, obligation index)')
    chk.load()
    xcheck.run_matrix_jobs(chk, ['C15'])
    chk.finish()


if __name__ == '__main__':
    main(sys.argv[1:])
