"""C10 - building is total: Ok or a documented Err, never a panic or overflow (DESIGN.md 4/C10).

Every `assert` terminator (arithmetic overflow, bounds, division by zero, debug assertions), every panic!/unwrap/
unreachable! that the symbolic execution of the pipeline meets in the MIR (debug assertions and overflow checks on) is an
obligation `path condition => cannot fail`, discharged for all symbolic contents; plus the built-in checks of the Kani
harnesses over best_encoding, Version::get and the GF kernel.  Termination: every loop executed had a concrete trip count
(a symbolic one is an unsupported construct), Kani harnesses pass their unwinding assertions."""
import random
import sys
import os

sys.path.insert(0, os.path.dirname(os.path.dirname(os.path.abspath(__file__))))
from checks.common import *          # noqa: F401,F403
from checks import xstage as X
from checks import c01, c02, c06, c11, kconfirm
from engine.mirsym import SliceRef, Ptr, L


def job_panics(job):
    kind, params, seed = job
    prog = worker_prog()
    extra = worker_extra()
    res = {'evaluations': 0, 'obligations': 0, 'discharged': 0, 'failures': [], 'nontrivial': [], 'samples': [],
           'validation': {'cases': 0, 'disagreements': 0}, 'vacuity': 0, 'stubs': []}
    asm = []
    replay = None
    if kind == 'build':
        spec, ecl, ver, mode = params
        chars = [c01.sym_char(i, c) for i, c in enumerate(spec)]
        I, r, st = c01.run_build(prog, chars, ecl, ver, mode)
        res['stubs'] = ['score::score uninterpreted']
        name = 'build len=%d classes=%s.. ecl=%s version=%s mode=%s' % (len(spec), spec[:10], ecl, ver, mode)

        def replay(model):
            data = [T.evaluate(c, {k: model.get(k, 0) for k in T.support(c)}) if not isinstance(c, int) else c for c in chars]
            o2s = lambda x: '-' if x is None else str(x)
            mk = str(model.get('mask_val', 0) % 8) if model.get('mask_some', 0) else '-'
            return 'build %s %s %s %s %s' % (OV.hexs(data), o2s(ecl), o2s(ver), o2s(mode), mk)
    elif kind == 'build_real_score':
        spec, ecl, ver, mode = params
        chars = [c01.sym_char(i, c) for i, c in enumerate(spec)]
        I, r, st = c01.run_build(prog, chars, ecl, ver, mode, stub=False)
        name = 'build with the real scoring, len=%d classes=%s..' % (len(spec), spec[:10])

        def replay(model):
            data = [T.evaluate(c, {k: model.get(k, 0) for k in T.support(c)}) if not isinstance(c, int) else c for c in chars]
            o2s = lambda x: '-' if x is None else str(x)
            mk = str(model.get('mask_val', 0) % 8) if model.get('mask_some', 0) else '-'
            return 'build %s %s %s %s %s' % (OV.hexs(data), o2s(ecl), o2s(ver), o2s(mode), mk)
    elif kind == 'encode':
        v, l, m, n = params
        xs = [T.var('c%d' % i, 8) for i in range(n)]
        asm = c06.alphabet_assumptions(m, xs)
        I, r = c06.run_encode(prog, xs, l, m, v)
        name = 'encode V%02d-%s %s n=%d' % (v + 1, iso.LEVELS[l], iso.MODES[m], n)

        def replay(model):
            return 'encode %s %d %d %d' % (OV.hexs([model.get('c%d' % i, 0x30) for i in range(n)]), l, m, v)
    elif kind == 'structure':
        v, l = params
        dc = iso.data_codewords(v + 1, iso.LEVELS[l])
        xs = [T.var('d%d' % i, 8) for i in range(dc)]
        I, r = c02.run_structure(prog, xs, l, v)
        name = 'structure+division V%02d-%s' % (v + 1, iso.LEVELS[l])

        def replay(model):
            return 'structure %s %d %d' % (OV.hexs([model.get('d%d' % i, 0) for i in range(dc)]), l, v)
    elif kind == 'place':
        v, = params
        R = X.run_place(prog, v)
        I = R['I']
        res['stubs'] = ['score::score uninterpreted']
        name = 'place_on_matrix V%02d (stream, level, mask symbolic)' % (v + 1)

        def replay(model):
            total = iso.total_codewords(v + 1)
            stream = [model.get('s%d' % i, 0) for i in range(total)]
            buf = stream + [0] * (X.STREAM_BUF - total)
            mk = str(model.get('mask_val', 0) % 8) if model.get('mask_some', 0) else '-'
            return 'place %s %d %d %d %s' % (OV.hexs(buf), total * 8 + iso.remainder_bits(v + 1), model.get('lvl', 0) % 4, v, mk)
    else:
        raise Inconclusive('unknown job kind %s' % kind)
    pan = [('%s@%s: %s' % (o.kind, o.where, o.msg[:50]), T.implies(T.and_many(list(o.pc)), o.cond)) for o in I.obligations]
    solver = worker_solver(240000 if kind == 'build_real_score' else 60000, 'z3-new', lut_mode='ite', logic='QF_BV')
    for a_ in asm:
        solver.assume(a_)
    syn, nsolv, fails, unk = discharge(solver, pan, eval_search=0 if asm else 6, chunk=4 if kind == 'build_real_score' else 16)
    res['obligations'] = len(pan)
    res['panic_obligations'] = len(pan)
    res['evaluations'] = len(pan)
    res['discharged'] = len(pan) - len(fails) - len(unk)
    res['nontrivial'] = ['%s #%d' % (name, i) for i, (_, c) in enumerate(pan) if type(c) is not int]
    kinds = {}
    for o in I.obligations:
        k = o.msg.split('`')[0][:40] if o.kind == 'assert' else o.kind
        kinds[k] = kinds.get(k, 0) + 1
    res['samples'] = [{'run': name, 'panic_obligations_met_symbolically': len(pan), 'kinds': kinds, 'mir_statements_executed': I.steps,
                       'note': 'asserts whose condition folded to a constant true during execution are not listed (they cannot fail for any value)'}]
    if unk and not fails:
        raise Inconclusive('solver returned unknown: %s' % unk[:2])
    if fails:
        native = OV.Native(extra['native'])
        lab, model = fails[0]
        req = replay(model or {})
        ans = native.ask(req)
        confirmed = ans.startswith('PANIC') or ans == 'ABORT'
        res['failures'].append({'key': 'C10/panic', 'confirmed': confirmed, 'obligation': lab,
                                'what': ('%s panics natively: %s  [%s]' % (name, ans[:100], req[:160])) if confirmed else 'panic obligation %s has a model that does not panic natively' % lab,
                                'replay': {'request': req}})
        native.close()
    res['vacuity'] = 1 if (not pan or solver.check([1])[0] == 'sat') else 0
    q = solver_counts(solver)
    q['syntactic'] = syn
    res['queries'] = q
    res['solver_time_s'] = solver.time_s
    solver.close()
    res.update(interp_stats(I))
    return res


def _panics_concretely(job, exc, extra):
    """the run reached a panic on every path: replay a member of the cell natively"""
    kind, params, seed = job
    rnd = random.Random(seed + 11)
    o2s = lambda x: '-' if x is None else str(x)
    if kind in ('build', 'build_real_score'):
        spec, ecl, ver, mode = params
        data = [c01.concrete_char(rnd, c) for c in spec]
        if data is None:
            return None
        req = 'build %s %s %s %s -' % (OV.hexs(data), o2s(ecl), o2s(ver), o2s(mode))
        name = 'build len=%d ecl=%s version=%s mode=%s' % (len(spec), ecl, ver, mode)
    elif kind == 'encode':
        v, l, m, n = params
        req = 'encode %s %d %d %d' % (OV.hexs(c06.random_payload(rnd, m, n)), l, m, v)
        name = 'encode V%02d-%s %s n=%d' % (v + 1, iso.LEVELS[l], iso.MODES[m], n)
    else:
        return None
    native = OV.Native(extra['native'])
    ans = native.ask(req)
    native.close()
    if ans.startswith('PANIC') or ans == 'ABORT':
        return {'failures': [{'key': 'C10/panic', 'confirmed': True, 'what': '%s panics for every content of this shape: %s  [%s]' % (name, ans[:100], req[:120]),
                              'replay': {'request': req}}], 'obligations': 1, 'evaluations': 1, 'discharged': 0}
    return None


job_panics.on_concrete_panic = _panics_concretely


def confirm_get(m, l):
    """a wrong capacity threshold is a C10 violation when the native build panics (debug profile: overflow checks on)"""
    def conf(values, native):
        n = values[0]
        if n > 8000:
            return kconfirm.version_get(m, l)(values, native)
        ch = {0: 0x31, 1: 0x41, 2: 0x61}[m]
        req = 'build %s %d - %d -' % (OV.hexs(bytes([ch]) * n), l, m)
        ans = native.ask(req)
        if ans.startswith('PANIC') or ans == 'ABORT':
            return True, 'building %d %s characters at level %s panics: %s' % (n, iso.MODES[m], iso.LEVELS[l], ans[:90]), {'request': req[:200]}
        return kconfirm.version_get(m, l)(values, native)
    return conf


def main(argv):
    chk = Check('C10', argv, features='svg')
    chk.rule = ('one obligation per assert/panic/unwrap/unreachable site instance met under a symbolic path condition in the pipeline runs, plus every '
                'built-in CBMC check (overflow, bounds, unwinding) of the Kani harnesses; non-trivial = the obligation has free variables')
    chk.load()
    specs = [
        {'harness': 'c09_best_encoding_24', 'key': 'C10/best_encoding', 'confirm': kconfirm.best_encoding, 'raw': True,
         'symbolic': 'buf: [u8; 24], len <= 24'},
        {'harness': 'c07_gf_multiply_kernel', 'key': 'C10/division', 'confirm': kconfirm.gf_kernel, 'symbolic': 'a: u8, e < 255'},
    ]
    # every (mode, level): the harness asserts 4 + count bits + payload bits <= data bits for the chosen and every larger
    # version, which is exactly "add_terminator's subtraction cannot wrap"
    for (m, mn) in ((0, 'numeric'), (1, 'alnum'), (2, 'byte')):
        for l in range(4):
            ln = 'lmqh'[l]
            specs.append({'harness': 'c05_get_%s_%s' % (mn, ln), 'key': 'C10/terminator-underflow', 'confirm': confirm_get(m, l), 'symbolic': 'len <= 2^40'})
    for (m, mn) in ((0, 'numeric'), (2, 'byte')):
        l = chk.rng.randrange(4)
        ln = 'lmqh'[l]
        specs.append({'harness': 'c05_huge_%s_%s' % (mn, ln), 'key': 'C10/version-get', 'confirm': kconfirm.version_get(m, l), 'symbolic': 'len > 2^40'})
    chk.run_kani(specs)
    jobs = []
    rng = chk.rng
    # end-to-end builds: option combinations, boundary lengths, far beyond capacity
    for (spec, ecl, ver, mode) in [
        ('', None, None, None), ('b', None, None, 2), ('B' + 'b' * 16, 2, None, None), ('d' * 41, 0, None, None), ('d' * 42, 0, None, 0),
        ('dAaaa', 3, None, None), ('a' * 10, 3, None, 1), ('b' * 7, 1, 4, 2), ('b' * 60, 1, 0, 2), ('b' * 32, 0, 1, 2),
        ('d' * 7089, 0, None, 0) if chk.tier == 'thorough' else ('d' * 200, 0, None, 0),
        ('d' * 7090, 0, None, 0), ('B' + 'b' * 7999, 3, None, None), ('a' * 4297, 0, None, 1), ('b' * 3000, None, 39, 2),
    ]:
        jobs.append(('build', (spec, ecl, ver, mode), chk.seed))
    # (a run of the whole build with the real scoring un-stubbed was tried and dropped: its score::line overflow obligations
    #  are functions of 4 payload bytes through RS and masking and are not decided within 240 s; C11 discharges the same
    #  obligations with every data module free, which covers every reachable matrix)
    if True:
        chk.outside.append('panic obligations inside score::line: discharged by the C11 check (every data module free) for V1-V2 (V1-V6 thorough); on lines longer than 29 modules they are beyond the solver cap')
    for v in ([0, 1, 2] if chk.tier == 'quick' else [0, 1, 2, 3, 6, 9]) + [rng.choice(range(20, 40))]:
        jobs.append(('place', (v,), chk.seed))
    for (v, l) in [(0, 0), (0, 3), (4, 2), (rng.randrange(10, 40), rng.randrange(4))]:
        jobs.append(('structure', (v, l), chk.seed))
    for (v, l, m) in [(0, 1, 0), (0, 1, 1), (0, 1, 2), (9, 2, 0), (26, 0, 1), (39, 3, 2)]:
        cap = c06.capacity_chars(v + 1, iso.LEVELS[l], iso.MODES[m])
        for n in sorted({0, 1, min(cap, 60), cap} if v < 3 else {1, min(cap, 80)}):
            jobs.append(('encode', (v, l, m, n), chk.seed))
    native_path = chk.ov.native(chk.features)
    chk.bounds.append('panic/overflow obligations of matrix_score_squares and dark_module_score with every data module symbolic: V40 and V1 (thorough: + V10, V20, V30, V34, V37)')
    jobs.sort(key=lambda j: -(len(j[1][0]) if j[0].startswith('build') and len(j[1][0]) < 3000 else 50))
    chk.jobs(job_panics, jobs, extra={'native': native_path})
    # scoring functions on the largest symbol (V40) and the smallest, every data module symbolic: panic obligations only
    sj = [('panics', 39, chk.seed, 'C10/panic'), ('panics', 0, chk.seed, 'C10/panic')]
    if chk.tier == 'thorough':
        sj += [('panics', v, chk.seed, 'C10/panic') for v in (9, 19, 29, 33, 36)]
    chk.jobs(c11.job_score, sj, extra={'native': native_path})
    jobs = jobs + sj
    chk.cov['runs'] = len(jobs)
    chk.bounds += ['%d symbolic runs of pipeline entry points (QRCode::new cells incl. lengths beyond every capacity; place_on_matrix; '
                   'structure+division; encode) - contents symbolic (so all-zero, all-0xFF and pad look-alikes are included), shapes enumerated' % len(jobs),
                   'Kani: best_encoding up to 24 bytes, Version::get for every usize length (all 12 capacity harnesses incl. the no-wrap clause, 2 of the 12 beyond-2^40 ones; all 24 in C05), GF kernel']
    chk.outside += ['forced modes whose alphabet does not contain the input (documented panic)',
                    'cells/versions not run here; the panic obligations of every other check (C01, C02, C03, C04, C06, C07, C08, C15) are discharged in those checks as well']
    chk.assumptions += ['a loop with a symbolic trip count would be reported as unsupported (none met)', 'score::score uninterpreted in the build runs; its functions are executed on free modules in the scoring runs']
    chk.finish()


if __name__ == '__main__':
    main(sys.argv[1:])
