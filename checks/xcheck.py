"""Shared driver of the matrix-stage properties (C02 placement part, C03, C04, C08, C15)."""
import random
import sys
import os

sys.path.insert(0, os.path.dirname(os.path.dirname(os.path.abspath(__file__))))
from checks.common import *          # noqa: F401,F403
from checks import xstage as X

PROP_OF_KIND = {'function': 'C03', 'size': 'C03', 'tail': 'C03', 'format': 'C04', 'version': 'C04', 'fields': 'C04',
                'data': 'C08', 'label': 'C15'}


def native_place(native, v, stream, level, mask):
    total = iso.total_codewords(v + 1)
    bitlen = total * 8 + iso.remainder_bits(v + 1)
    buf = list(stream) + [0] * (X.STREAM_BUF - len(stream))
    ans = native.ask('place %s %d %d %d %s' % (OV.hexs(buf), bitlen, level, v, '-' if mask is None else str(mask)))
    return ans


def confirm_native(native, v, stream, level, mask):
    """replay (stream, level, forced mask or None) on the native build and compare with the oracle symbol.
    -> (list of (kind, description), request line)"""
    req_ans = native_place(native, v, stream, level, mask)
    total = iso.total_codewords(v + 1)
    req = 'place <stream %s...> bitlen=%d ecl=%d version=%d mask=%s' % (bytes(stream[:8]).hex(), total * 8 + iso.remainder_bits(v + 1), level, v, mask)
    out = []
    if req_ans.startswith('PANIC') or req_ans == 'ABORT':
        return [('panic', 'place_on_matrix panics: %s' % req_ans[:120])], req
    f = OV.parse_fields(req_ans)
    n = iso.size(v + 1)
    if int(f['size']) != n:
        out.append(('size', 'size is %s, ISO side for version %d is %d' % (f['size'], v + 1, n)))
        return out, req
    om = f['outmask']
    if om == '-':
        out.append(('fields', 'no mask reported through the &mut Option<Mask>'))
        return out, req
    om = int(om)
    if mask is not None and om != mask:
        out.append(('fields', 'forced mask %d but mask %d reported' % (mask, om)))
    if f['mask'] != str(om):
        out.append(('fields', 'QRCode.mask is %s but %d was written back' % (f['mask'], om)))
    if int(f['tail_dirty']) != 0:
        out.append(('tail', '%s modules beyond the %dx%d square are not Module::data(LIGHT)' % (f['tail_dirty'], n, n)))
    raw = bytes.fromhex(f['data'])
    want = iso.build_matrix(v + 1, iso.LEVELS[level], om, list(stream))
    g = iso.geometry(v + 1)
    for r in range(n):
        for c in range(n):
            b = raw[r * n + c]
            lab = g['label'][r][c]
            if (b & 0xFE) != lab:
                out.append(('label', 'module (%d,%d) is labelled %s, its ISO region is %s' % (
                    r, c, iso.LABEL_NAMES.get(b & 0xFE, b >> 1), iso.LABEL_NAMES[lab])))
            if (b & 1) != want[r][c]:
                kind = {iso.DATA: 'data', iso.FORMAT: 'format', iso.VERSION: 'version'}.get(lab, 'function')
                out.append((kind, '%s module (%d,%d) is %d, expected %d (mask %d, level %s)' % (
                    iso.LABEL_NAMES[lab], r, c, b & 1, want[r][c], om, iso.LEVELS[level])))
            if len(out) > 40:
                return out, req
    return out, req


def job_version(job):
    """one version with stream / level / mask option symbolic.  If the code cannot be followed with the option symbolic (e.g.
    it builds differently shaped values for a forced and an automatic mask), the job is split into the two cases"""
    try:
        return _job_version(job, None)
    except M.Unsupported as e:
        if 'unmergeable' not in str(e) and 'merge of' not in str(e):
            raise
        T.reset()
        a = _job_version(job, 0)
        T.reset()
        b = _job_version(job, 1)
        out = dict(a)
        for k in ('evaluations', 'obligations', 'discharged', 'vacuity', 'panic_obligations', 'solver_time_s', 'steps', 'arms'):
            out[k] = (a.get(k) or 0) + (b.get(k) or 0)
        out['failures'] = a.get('failures', []) + b.get('failures', [])
        out['nontrivial'] = a.get('nontrivial', []) + ['forced ' + x for x in b.get('nontrivial', [])]
        out['validation'] = {k: a['validation'][k] + b['validation'][k] for k in a['validation']}
        out['queries'] = {k: a.get('queries', {}).get(k, 0) + b.get('queries', {}).get(k, 0) for k in set(a.get('queries', {})) | set(b.get('queries', {}))}
        out.setdefault('notes', []).append('case split on the mask option (%s)' % str(e)[:80])
        return out


def _job_version(job, mask_some):
    v, mode, pid, props, seed, nval = job
    prog = worker_prog()
    extra = worker_extra()
    res = {'evaluations': 0, 'obligations': 0, 'discharged': 0, 'failures': [], 'nontrivial': [], 'samples': [],
           'validation': {'cases': 0, 'disagreements': 0}, 'vacuity': 0, 'stubs': ['score::score -> fresh 32-bit value per call (uninterpreted)']}
    T.set_nolut(mode == 'nolut')
    try:
        R = X.run_place(prog, v, mask_some=mask_some)
        I = R['I']
        A = X.assertions(R, v, props)
        items = []
        for p in props:
            items += [('%s: %s' % (p, lab), c) for lab, c in A[p]]
        pan = [('%s@%s' % (o.kind, o.where), T.implies(T.and_many(list(o.pc)), o.cond)) for o in I.obligations]
        solver = worker_solver(120000 if mode == 'nolut' else 60000, 'z3-new')
        syn, nsolv, fails, unk = discharge(solver, items + pan, eval_search=6)
        res['obligations'] = len(items) + len(pan)
        res['panic_obligations'] = len(pan)
        res['evaluations'] = res['obligations']
        res['discharged'] = res['obligations'] - len(fails) - len(unk)
        names = set()
        nontriv = 0
        for lab, c in items:
            if pid in ('C03', 'C15'):
                # payload/level/mask independence is the claim: every cell of the symbol was produced by code that ran
                # with the stream, level and mask symbolic, and the obligation is that its term is this constant
                nontriv += 1
            elif type(c) is not int or 'data(' in lab or 'placement(' in lab or 'format bit' in lab:
                nontriv += 1
        res['nontrivial'] = ['V%02d %s #%d' % (v + 1, mode, i) for i in range(nontriv)]
        ex = [lab for lab, c in items if type(c) is not int][:2] or [items[len(items) // 2][0]]
        res['samples'] = [{'version': v + 1, 'mode': mode, 'free_variables': '%d stream bytes, level, mask option, 8 stub scores' % len(R['stream']),
                           'obligations': len(items), 'sent_to_solver': nsolv, 'example': ex,
                           'mir_statements_executed': I.steps, 'symbolic_branches_merged': I.branches}]
        native = OV.Native(extra['native'])
        if unk and not fails:
            # undecided: look for a concrete witness natively before giving up (found -> confirmed violation; none -> inconclusive)
            rw = random.Random(seed * 17 + v)
            total_ = len(R['stream'])
            for t_ in range(16 if v < 10 else 4):
                st_ = [rw.randrange(256) for _ in range(total_)]
                lv_ = rw.randrange(4)
                mk_ = rw.choice([None, rw.randrange(8), rw.randrange(8)])
                mism, req = confirm_native(native, v, st_, lv_, mk_)
                mine = [d for k, d in mism if PROP_OF_KIND.get(k, pid) == pid or k == 'panic' or (pid == 'C02' and k == 'data')
                        or (pid == 'C08' and k in ('function', 'format', 'version', 'data'))]
                if mine:
                    res['failures'].append({'key': '%s/matrix-stage' % pid, 'confirmed': True, 'obligation': unk[0],
                                            'what': '%s [V%02d level %s forced mask %s, stream %s...; the solver did not decide %s, witness found by native search]' % (
                                                mine[0], v + 1, iso.LEVELS[lv_], mk_, bytes(st_[:12]).hex(), unk[0][:60]),
                                            'replay': {'entry': 'place', 'version': v, 'level': lv_, 'mask': mk_, 'stream': bytes(st_).hex()}})
                    break
            else:
                raise Inconclusive('solver returned unknown for %s' % unk[:2])
            unk = []
        for lab, model in fails[:1]:
            model = model or {}
            stream = [model.get('s%d' % i, 0) for i in range(len(R['stream']))]
            level = model.get('lvl', 0) % 4
            some_ = model.get('mask_some', 0) if mask_some is None else mask_some
            forced = model.get('mask_val', 0) % 8 if some_ else None
            tries = [forced] if forced is not None else [None] + list(range(8))
            confirmed = False
            what = 'not reproduced: ' + lab
            reqs = []
            for m in tries:
                mism, req = confirm_native(native, v, stream, level, m)
                reqs.append(req)
                mine = [d for k, d in mism if PROP_OF_KIND.get(k, pid) == pid or k == 'panic' or (pid == 'C02' and k == 'data')
                        or (pid == 'C08' and k in ('function', 'format', 'version', 'data'))]
                if mine:
                    confirmed = True
                    what = '%s [V%02d level %s forced mask %s, stream %s...]' % (mine[0], v + 1, iso.LEVELS[level], m, bytes(stream[:12]).hex())
                    break
            if not confirmed and v <= 3:
                # the model fixes the stub scores, which a native run computes itself: a behaviour that needs a particular
                # relation between real scores (e.g. a tie) shows only for some streams - search small symbols natively
                rs = random.Random(seed * 5 + v)
                for t_ in range(500):
                    st_ = [rs.randrange(256) for _ in range(len(stream))]
                    lv_ = rs.randrange(4)
                    mism, req = confirm_native(native, v, st_, lv_, forced)
                    mine = [d for k, d in mism if PROP_OF_KIND.get(k, pid) == pid or k == 'panic' or (pid == 'C02' and k == 'data')
                            or (pid == 'C08' and k in ('function', 'format', 'version', 'data'))]
                    if mine:
                        confirmed, m, stream, level = True, forced, st_, lv_
                        what = '%s [V%02d level %s forced mask %s, stream %s...; witness %d of a native search after the symbolic failure of: %s]' % (
                            mine[0], v + 1, iso.LEVELS[lv_], forced, bytes(st_[:12]).hex(), t_, lab[:70])
                        break
            res['failures'].append({'key': '%s/matrix-stage' % pid, 'what': what, 'confirmed': confirmed,
                                    'obligation': lab,
                                    'replay': {'entry': 'place', 'version': v, 'level': level, 'mask': m if confirmed else forced,
                                               'stream': bytes(stream).hex()}})
        # vacuity witness: a data cell compared with the *next* stream bit must be refutable
        g = iso.geometry(v + 1)
        n = g['n']
        rnd = random.Random(seed * 31 + v)
        k = rnd.randrange(0, len(R['stream']) * 8 - 1)
        r, c = g['order'][k]
        cellv = R['qr'][0][r * n + c][0]
        wrong = T.bxor(1, T.extract_bit(8, R['stream'][(k + 1) >> 3], 7 - ((k + 1) & 7)), iso.mask_bit_t(X.chosen_mask_oracle(R), r, c))
        a, _ = solver.check([T.ne(1, T.trunc(8, 1, cellv), wrong)])
        if a != 'sat':
            raise Inconclusive('vacuity witness not satisfiable (%s)' % a)
        res['vacuity'] = 1
        # translator validation: concrete (stream, level, forced mask) through native build, concrete interpreter
        # run and evaluation of the symbolic result
        qr = R['qr']
        for t in range(0 if any(f_.get('confirmed') for f_ in res['failures']) else nval):
            stream = [rnd.randrange(256) for _ in range(len(R['stream']))]
            if t == 1:
                stream = [0] * len(stream)
            level = rnd.randrange(4)
            mask = rnd.randrange(8)
            ans = native_place(native, v, stream, level, mask)
            f = OV.parse_fields(ans)
            nat = list(bytes.fromhex(f['data']))
            env = {'s%d' % i: stream[i] for i in range(len(stream))}
            env.update({'lvl': level, 'mask_some': 1, 'mask_val': mask})
            if mask_some == 0:
                continue            # this case has no forced mask: the validation inputs (forced masks) belong to the other case
            for q in range(8):
                env['score%d' % q] = rnd.randrange(1 << 32)
            cache = {}
            sym = [T.evaluate(qr[0][i][0], env, cache) for i in range(n * n)]
            ok = sym == nat
            if t == 0 and (v < 6 or mode == 'nolut'):
                Rc = X.run_place(prog, v, concrete={'stream': stream, 'level': level, 'mask': mask})
                conc = [Rc['qr'][0][i][0] for i in range(n * n)]
                ok = ok and conc == nat
            res['validation']['cases'] += 1
            if not ok:
                # the encoding and the native build disagree on a concrete input.  If the native symbol itself differs from the
                # ISO symbol for this (stream, level, forced mask), that is a defect of the code (typically: the result for a
                # forced mask depends on the penalty scores, which are free values in the encoding), not of the translator.
                mism, req = confirm_native(native, v, stream, level, mask)
                mine = [d for k, d in mism if PROP_OF_KIND.get(k, pid) == pid or k == 'panic' or (pid == 'C02' and k == 'data')
                        or (pid == 'C08' and k in ('function', 'format', 'version', 'data'))]
                if mine:
                    res['failures'].append({'key': '%s/matrix-stage' % pid, 'confirmed': True, 'obligation': 'concrete validation run',
                                            'what': '%s [V%02d level %s forced mask %s, stream %s...]' % (mine[0], v + 1, iso.LEVELS[level], mask, bytes(stream[:12]).hex()),
                                            'replay': {'entry': 'place', 'version': v, 'level': level, 'mask': mask, 'stream': bytes(stream).hex()}})
                    break
                if mism:
                    raise Inconclusive('the native build differs from the ISO symbol for V%02d (%s: %s) - a defect under another property (%s), '
                                       'not decided here; the encoding could not be validated on this input' % (
                                           v + 1, mism[0][0], mism[0][1][:80], PROP_OF_KIND.get(mism[0][0], '?')))
                res['validation']['disagreements'] += 1
                raise Inconclusive('translator validation failed for V%02d (stream %s..., level %d, mask %d)' % (v + 1, bytes(stream[:6]).hex(), level, mask))
        native.close()
        q = solver_counts(solver)
        q['syntactic'] = syn
        res['queries'] = q
        res['solver_time_s'] = solver.time_s
        solver.close()
        res.update(interp_stats(I))
    finally:
        T.set_nolut(False)
    return res


def versions_for(chk, quick_core=(1, 2, 3, 4, 5, 6, 7), extra=4):
    if chk.tier == 'thorough':
        return list(range(40))
    vs = set(v - 1 for v in quick_core)
    pool = [v for v in range(7, 39)]
    vs.add(39)                      # the largest symbol: every coordinate up to 176 is exercised in the quick tier too
    while len(vs) < len(quick_core) + extra:
        vs.add(chk.rng.choice(pool))
    return sorted(vs)


def job_blank(job):
    """the blank symbol has the version as its only input: default::create_matrix executed concretely for a version and
    compared with the oracle (labels, function-module values, tail).  Exhaustive over its finite input domain; this is a
    supplement to the symbolic runs (which cover payload/level/mask dependence), not a solver verdict."""
    v, pid = job
    prog = worker_prog()
    res = {'evaluations': 0, 'obligations': 0, 'discharged': 0, 'failures': [], 'nontrivial': [], 'samples': [],
           'validation': {'cases': 0, 'disagreements': 0}, 'vacuity': 0}
    I = M.Interp(prog)
    qr = I.call_fn(prog.resolve('default::create_matrix'), [v])
    g = iso.geometry(v + 1)
    n = g['n']
    bad = []
    if qr[1] != n:
        bad.append('size %r' % (qr[1],))
    else:
        for r in range(n):
            for c in range(n):
                b = qr[0][r * n + c][0]
                lab = g['label'][r][c]
                if (b & 0xFE) != lab:
                    bad.append('label of (%d,%d) is %s, ISO region %s' % (r, c, iso.LABEL_NAMES.get(b & 0xFE, b), iso.LABEL_NAMES[lab]))
                elif lab not in (iso.DATA, iso.FORMAT) and (b & 1) != g['value'][r][c]:
                    bad.append('%s module (%d,%d) is %d' % (iso.LABEL_NAMES[lab], r, c, b & 1))
        if any(qr[0][i][0] != 0 for i in range(n * n, len(qr[0]))):
            bad.append('backing array beyond the square is touched')
    res['obligations'] = n * n + 1
    res['evaluations'] = n * n + 1
    res['discharged'] = n * n + 1 - len(bad)
    if bad:
        res['failures'].append({'key': '%s/blank-symbol' % pid, 'confirmed': True,
                                'what': 'blank symbol of version %d: %s' % (v + 1, bad[0]), 'replay': {'request': 'blank %d' % v}})
    res['queries'] = {'issued': 0, 'unsat': 0, 'sat': 0, 'unknown': 0, 'syntactic': n * n + 1}
    res.update(interp_stats(I))
    return res


def run_matrix_jobs(chk, props, nolut_versions=None):
    vs = versions_for(chk)
    nval = 2 if chk.tier == 'quick' else 4
    jobs = [(v, 'sym', chk.pid, props, chk.seed, nval) for v in vs]
    if nolut_versions is None:
        nolut_versions = [0] if chk.tier == 'quick' else [0, 1, 2]
    jobs += [(v, 'nolut', chk.pid, props, chk.seed, 1) for v in nolut_versions]
    jobs.sort(key=lambda j: -(j[0] + (30 if j[1] == 'nolut' else 0)))
    native_path = chk.ov.native(chk.features)
    chk.jobs(job_version, jobs, extra={'native': native_path})
    if chk.pid in ('C03', 'C15'):
        rest = [v for v in range(40) if v not in vs]
        if rest:
            chk.jobs(job_blank, [(v, chk.pid) for v in rest], extra={'native': native_path})
            chk.cov['blank_symbol_versions_concrete'] = [v + 1 for v in rest]
            chk.bounds.append('blank symbol (default::create_matrix, whose only input is the version) executed concretely and compared with the oracle for the '
                              'remaining versions %s - exhaustive over that finite domain, a supplement and not a solver verdict' % [v + 1 for v in rest])
    chk.cov['versions'] = [v + 1 for v in vs]
    chk.cov['nolut_versions'] = [v + 1 for v in nolut_versions]
    chk.bounds += [
        'versions run in this tier: %s (each with the whole codeword stream, the level and the mask option symbolic; score::score uninterpreted)' % [v + 1 for v in vs],
        'NOLUT cross-validation (solver decides the un-normalised obligations) on versions %s' % [v + 1 for v in nolut_versions],
    ]
    chk.outside += ['versions not listed for this tier (thorough runs all 40)',
                    'streams longer than the version\'s total codewords (bytes past the total are zero, as `structure` leaves them)']
    chk.assumptions += [
        'stage argument (DESIGN.md 3): QRCode::new / placement::create_matrix pass the stream, level, version and mask option unchanged to place_on_matrix (checked end-to-end on small versions by C01)',
        'score::score is an uninterpreted stub here: the result holds whichever mask the scoring picks',
        'term normaliser and library models are trusted; validated per run by NOLUT-mode solver queries, concrete runs against the native build and evaluation of the symbolic result',
    ]
