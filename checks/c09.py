"""C09 - automatic mode is the most compact mode that can represent the input (DESIGN.md 4/C09)."""
import sys
import os

sys.path.insert(0, os.path.dirname(os.path.dirname(os.path.abspath(__file__))))
from checks.common import *          # noqa: F401,F403
from checks import kconfirm


def main(argv):
    chk = Check('C09', argv, features='svg')
    chk.rule = ('Kani checks of best_encoding over a symbolic byte buffer with symbolic length, and of the value table over every byte; '
                'non-trivial = every CBMC property of a harness with symbolic input; distinct by (harness, property index)')
    chk.load()
    n = 24 if chk.tier == 'quick' else 96
    specs = [
        {'harness': 'c09_best_encoding_%d' % n, 'key': 'C09/classification', 'confirm': kconfirm.best_encoding, 'raw': True,
         'symbolic': 'buf: [u8; %d] all bytes free, len: usize <= %d free' % (n, n)},
        {'harness': 'c09_alnum_value_table', 'key': 'C09/value-table', 'confirm': kconfirm.alnum_value, 'raw': True,
         'symbolic': 'c: u8 free'},
    ]
    chk.run_kani(specs, timeout=3000)
    chk.bounds += ['byte strings of every length 0..%d with every byte value at every position (length symbolic)' % n,
                   'value table / classifier agreement: all 256 byte values']
    chk.outside += ['strings longer than %d bytes (the two-stage scan has no length-dependent behaviour, but that is an argument, not a verdict)' % n,
                    'that the chosen mode does not alter characters is decided by C06/C01 in automatic mode']
    chk.assumptions += ['Kani/CBMC model of the compiled crate; unwinding assertions on']
    chk.finish()


if __name__ == '__main__':
    main(sys.argv[1:])
