"""C09 - automatic mode is the most compact mode that can represent the input (DESIGN.md 4/C09)."""
import random
import sys
import os

sys.path.insert(0, os.path.dirname(os.path.dirname(os.path.abspath(__file__))))
from checks.common import *          # noqa: F401,F403
from checks import kconfirm, c01
from engine.mirsym import SliceRef

V40_CAPS = {'d': (7089, 5596, 3993, 3057), 'A': (4296, 3391, 2420, 1852), 'B': (2953, 2331, 1663, 1273)}


def job_long(job):
    """best_encoding on a long input: `n` characters of class `cls` (digits / alphanumeric-only / byte-only), of which the
    first, the last and 6 seed-chosen positions are symbolic within their class and one seed-chosen position may hold a
    character of a wider class (symbolic choice): the answer must be the class of the widest character present"""
    n, cls, seed = job
    prog = worker_prog()
    extra = worker_extra()
    res = {'evaluations': 0, 'obligations': 0, 'discharged': 0, 'failures': [], 'nontrivial': [], 'samples': [],
           'validation': {'cases': 0, 'disagreements': 0}, 'vacuity': 0}
    rnd = random.Random(seed * 29 + n)
    sym_pos = sorted({0, n - 1} | {rnd.randrange(n) for _ in range(6)}) if n else []
    # two positions that may hold a character of the next wider class: one among the first 8, one anywhere
    odds = sorted({rnd.randrange(min(n, 8)), rnd.randrange(n)}) if n else []
    wider = {'d': 'A', 'A': 'B', 'B': 'B'}[cls]
    picks = {i: T.var('wider_at_%d' % i, 1) for i in odds}
    pick = T.or_many(list(picks.values())) if picks else 0
    items = []
    for i in range(n):
        if i in picks:
            a = c01.sym_char(i, cls)
            b = c01.sym_char(i + 100000, wider)
            items.append(T.ite(8, picks[i], b, a))
        elif i in sym_pos:
            items.append(c01.sym_char(i, cls))
        else:
            items.append(c01.concrete_char(rnd, cls))
    I = M.Interp(prog)
    buf = I.mk(list(items))
    r = I.call_fn(prog.resolve('best_encoding'), [SliceRef(buf, 0, n)])
    rank = {'d': 0, 'A': 1, 'B': 2}
    want = T.ite(8, pick, rank[wider], rank[cls]) if n else 0
    obl = [('automatic mode of %d characters of class %s (one position possibly of class %s)' % (n, cls, wider), T.eq(8, r, want) if r is not M.DEAD else 0)]
    pan = [('%s@%s: %s' % (o.kind, o.where, o.msg[:40]), T.implies(T.and_many(list(o.pc)), o.cond)) for o in I.obligations]
    solver = worker_solver(60000, 'z3-new', lut_mode='ite', logic='QF_BV')
    syn, nsolv, fails, unk = discharge(solver, obl + pan, eval_search=4, chunk=8)
    res['obligations'] = len(obl) + len(pan)
    res['panic_obligations'] = len(pan)
    res['evaluations'] = res['obligations']
    res['discharged'] = res['obligations'] - len(fails) - len(unk)
    res['nontrivial'] = ['long n=%d class %s #%d' % (n, cls, i) for i in range(len(obl))]
    res['samples'] = [{'input': '%d characters of class %s' % (n, cls), 'free': '%d positions within their class, %d positions across two classes' % (len(sym_pos), len(odds))}]
    if unk and not fails:
        raise Inconclusive('solver unknown: %s' % unk[:1])
    native = OV.Native(extra['native'])
    for lab, model in fails[:1]:
        env = dict(model or {})
        for nm in T.all_vars():
            env.setdefault(nm, 0)
        data = bytes(x if type(x) is int else T.evaluate(x, env) for x in items)
        ans = native.ask('best_encoding %s' % OV.hexs(data))
        exp = 0 if all(0x30 <= c <= 0x39 for c in data) else (1 if all(chr(c) in iso.ALNUM for c in data) else 2)
        confirmed = ans.startswith('PANIC') or (ans.isdigit() and int(ans) != exp)
        res['failures'].append({'key': 'C09/classification', 'confirmed': confirmed, 'obligation': lab,
                                'what': ('automatic mode for an input of %d characters (%r...) is %s, the most compact mode that can represent it is %s' % (
                                    n, data[:12], ans if not ans.isdigit() else iso.MODES[int(ans)], iso.MODES[exp])) if confirmed else 'not reproduced: %s' % lab,
                                'replay': {'request': 'best_encoding %s' % OV.hexs(data)[:400]}})
    native.close()
    res['vacuity'] = 1
    q = solver_counts(solver)
    q['syntactic'] = syn
    res['queries'] = q
    res['solver_time_s'] = solver.time_s
    solver.close()
    res.update(interp_stats(I))
    return res


def main(argv):
    chk = Check('C09', argv, features='svg')
    chk.rule = ('Kani checks of best_encoding over a symbolic byte buffer with symbolic length, and of the value table over every byte; '
                'non-trivial = every CBMC property of a harness with symbolic input; distinct by (harness, property index)')
    chk.load()
    n = 24 if chk.tier == 'quick' else 96
    specs = [
        {'harness': 'c09_best_encoding_%d' % n, 'key': 'C09/classification', 'confirm': kconfirm.best_encoding, 'raw': True,
         'symbolic': 'buf: [u8; %d] all bytes free, len: usize <= %d free' % (n, n)},
        {'harness': 'c09_alnum_value_table', 'key': 'C09/value-table', 'confirm': kconfirm.alnum_value, 'raw': True,
         'symbolic': 'c: u8 free'},
    ]
    chk.run_kani(specs, timeout=900 if chk.tier == 'quick' else 3000)
    # long inputs (engine M): lengths at and just beyond every V40 capacity of every mode and level, and a few in between
    lens = sorted({c + d for caps in V40_CAPS.values() for c in caps for d in (0, 1)} | {25, 97, 255, 256, 1000, 7999})
    if chk.tier == 'quick':
        lens = [x for x in lens if x in (25, 97, 256, 1273, 2953, 2954, 4296, 4297, 7089, 7090)]
    jobs = [(n_, cls, chk.seed) for n_ in lens for cls in 'dAB']
    native_path = chk.ov.native(chk.features)
    chk.jobs(job_long, jobs, extra={'native': native_path})
    chk.bounds += ['byte strings of every length 0..%d with every byte value at every position (length symbolic)' % n,
                   'value table / classifier agreement: all 256 byte values']
    chk.bounds += ['long inputs at lengths %s: characters of one class, 8 positions symbolic within the class and two positions (one among the first 8) symbolic across two classes' % lens]
    chk.outside += ['strings longer than %d bytes with more than 9 symbolic positions, and lengths other than the listed ones' % n,
                    'that the chosen mode does not alter characters is decided by C06/C01 in automatic mode']
    chk.assumptions += ['Kani/CBMC model of the compiled crate; unwinding assertions on']
    chk.finish()


if __name__ == '__main__':
    main(sys.argv[1:])
