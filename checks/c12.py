"""C12 - SVG output is well-formed and draws exactly the dark modules (DESIGN.md 4/C12).

The real SvgBuilder (default + setters + to_str, from the MIR) is executed with every module value, every colour byte and
every character of the image string symbolic.  The resulting symbolic string (literal characters, symbolic characters,
pieces guarded by a condition) is checked semantically:
  * well-formed for every valuation: the skeleton parses with expat, no symbolic character can be < & or " (solver),
    guarded pieces are plain path data inside an attribute value;
  * root svg with square viewBox of side size+2*margin, background rect of that size in the background colour;
  * per layer: exactly one guarded sub-path per coordinate, guard == that module's value, bounding box inside the cell
    anchored at (column+margin, row+margin); colour text = #rrggbb, or #rrggbbaa iff alpha < 255, as functions of the bytes;
  * image: a single image element; un-escaping its href gives the image string back for every character value."""
import html
import random
import re
import sys
import os
import xml.parsers.expat

sys.path.insert(0, os.path.dirname(os.path.dirname(os.path.abspath(__file__))))
from checks.common import *          # noqa: F401,F403
from checks import svgdrv as S
from engine.mirsym import SliceRef, Ptr, L, Guarded, NumPiece, Float

PLACEHOLDER = 'x'
HEXCH = '0123456789abcdef'


def parse_xml(text):
    """-> list of (tag, attrs dict, start offset) in document order; raises on malformed input"""
    out = []
    p = xml.parsers.expat.ParserCreate()
    p.ordered_attributes = False

    def start(name, attrs):
        out.append((name, dict(attrs), p.CurrentByteIndex))
    p.StartElementHandler = start
    p.Parse(text.encode('utf-8'), True)
    return out


def path_bbox(d):
    """bounding box of the vertices (and arc endpoints) of one sub-path using M h v l a z (relative lower case)"""
    toks = re.findall(r'[MmLlHhVvAaZz]|-?(?:\d+\.?\d*|\.\d+)', d)
    i = 0
    x = y = 0.0
    pts = []
    cmd = None
    start = None

    def num():
        nonlocal i
        v = float(toks[i])
        i += 1
        return v
    while i < len(toks):
        if re.match(r'[A-Za-z]', toks[i]):
            cmd = toks[i]
            i += 1
            if cmd in 'Zz':
                if start:
                    x, y = start
                continue
        if cmd == 'M':
            x, y = num(), num()
            start = (x, y)
            pts.append((x, y))
            cmd = 'L'
        elif cmd == 'L':
            x, y = num(), num()
            pts.append((x, y))
        elif cmd == 'l':
            x, y = x + num(), y + num()
            pts.append((x, y))
        elif cmd == 'h':
            x += num()
            pts.append((x, y))
        elif cmd == 'v':
            y += num()
            pts.append((x, y))
        elif cmd == 'a':
            rx, ry = num(), num()
            num(); num(); num()
            dx, dy = num(), num()
            # circle through the two endpoints: include the extreme points of a circle of radius rx around the midpoint-ish centre
            cx, cy = x - rx if abs(dy) < 0.2 else x, y + dy / 2
            pts += [(cx - rx, cy), (cx + rx, cy), (cx, cy - ry), (cx, cy + ry)]
            x, y = x + dx, y + dy
            pts.append((x, y))
        else:
            raise ValueError('path command %r' % cmd)
    xs = [p[0] for p in pts]
    ys = [p[1] for p in pts]
    return min(xs), min(ys), max(xs), max(ys)


def hexpair_t(b):
    """two characters of '{:02x}' for an int / 8-bit term"""
    if type(b) is int:
        return [ord(c) for c in '%02x' % b]
    return [T.lut([ord(HEXCH[i >> 4]) for i in range(256)], b, 32), T.lut([ord(HEXCH[i & 15]) for i in range(256)], b, 32)]


def colour_items(rgba):
    """expected flattened (guard, char) list for a colour"""
    out = [(1, ord('#'))]
    for b in rgba[:3]:
        out += [(1, c) for c in hexpair_t(b)]
    a = rgba[3]
    g = T.ne(8, a, 255) if type(a) is not int else (1 if a != 255 else 0)
    if type(g) is not int or g:
        out += [(g, c) for c in hexpair_t(a)]
    return out


def job_cell(job):
    v, margin, layers, with_image, img_len, seed = job[:6]
    order = job[6] if len(job) > 6 else None         # seed of a shuffle of the setter calls (layer calls keep their order)
    prog = worker_prog()
    extra = worker_extra()
    res = {'evaluations': 0, 'obligations': 0, 'discharged': 0, 'failures': [], 'nontrivial': [], 'samples': [],
           'validation': {'cases': 0, 'disagreements': 0}, 'vacuity': 0}
    n = iso.size(v + 1)
    rnd = random.Random(seed * 7 + v * 3 + margin)
    I = M.Interp(prog)
    cell, bp = S.new_builder(I, prog)

    def sym_colour(name):
        return [T.var('%s_%s' % (name, ch), 8) for ch in 'rgba']
    cfg = {'margin': margin, 'bg': sym_colour('bg'), 'fg': sym_colour('fg'), 'layers': []}
    layer_cols = []
    for li, (sh, coloured) in enumerate(layers):
        col = sym_colour('l%d' % li) if coloured else None
        cfg['layers'].append((sh, col))
        layer_cols.append(col)
    img = None
    if with_image:
        # printable ASCII 0x20..0x7e (URLs, data URIs, paths incl. & < > " '); control characters cannot be represented
        # in XML 1.0 at all and are outside the claim
        img = [T.var('img%d' % i, 8, below=95) for i in range(img_len)]
        cfg['image'] = [T.zext(8, 32, T.lut([0x20 + (k % 95) for k in range(256)], c, 8)) for c in img]
        cfg['ibg'] = sym_colour('ibg')
    call_order = S.configure(I, prog, bp, cfg, order)
    mvals = [T.var('m%d' % i, 1) for i in range(n * n)]
    types = [rnd.choice([0, 2, 4, 6, 8, 10, 12, 14]) for _ in range(n * n)]
    cells = [T.bor(8, types[i], T.zext(1, 8, mvals[i])) for i in range(n * n)]
    qr = S.make_qr(I, n, cells)
    before = [c[0] for c in qr[0][:n * n]]
    s = S.to_str(I, prog, bp, qr)
    if s is M.DEAD:
        raise Inconclusive('to_str diverges')
    flat = S.flatten(list(s[0]))
    items = []          # (label, cond)
    struct_fail = []    # structural failures (concrete)
    side = n + 2 * margin
    # ---- skeleton instantiations: all guards off / all on, symbolic characters replaced by a placeholder
    sym_pos = []        # (offset in `on` text, guard, char term)

    def inst(mode):
        out = []
        for g, ch in flat:
            gv = g if type(g) is int else (1 if mode == 'on' else 0)
            if type(g) is not int and mode == 'img_on':
                # guards on image characters on, module guards off (used to look at the href)
                gv = 0 if (T.support(g) & set('m%d' % i for i in range(n * n))) else 1
            if not gv:
                continue
            if type(ch) is int:
                out.append(chr(ch))
            elif type(ch) is T.Term:
                out.append(PLACEHOLDER)
            else:
                out.append('0')      # formatted number piece
        return ''.join(out)
    try:
        off_doc = inst('off')
        on_doc = inst('on')
        el_off = parse_xml(off_doc)
        el_on = parse_xml(on_doc)
    except xml.parsers.expat.ExpatError as e:
        struct_fail.append('document skeleton is not well-formed XML: %s' % e)
        el_off = el_on = []
    # ---- every symbolic character can never break the markup; every guard is either a module value or decidable
    for k, (g, ch) in enumerate(flat):
        if type(ch) is T.Term:
            bad = T.or_many([T.eq(32, ch, ord(c)) for c in '<&"'])
            items.append(('character %d can never be < & or "' % k, T.lnot(T.land(g, bad))))
    # concrete characters of guarded pieces must be plain (path data, or an entity reference inside the href)
    k = 0
    while k < len(flat):
        g, ch = flat[k]
        if type(g) is not int and type(ch) is int and chr(ch) in '<>"':
            struct_fail.append('a conditional piece contains the markup character %r' % chr(ch))
        if type(g) is not int and type(ch) is int and chr(ch) == '&':
            tail = ''.join(chr(c) if type(c) is int else '?' for _, c in flat[k:k + 8])
            if not re.match(r'&(amp|lt|gt|quot|apos|#\d+|#x[0-9a-fA-F]+);', tail):
                struct_fail.append('a conditional piece contains a bare &')
        k += 1
    # ---- root, background
    if el_off:
        tag, at, _ = el_off[0]
        if tag != 'svg' or at.get('viewBox') != '0 0 %d %d' % (side, side):
            struct_fail.append('root element is %s viewBox=%r, expected svg with viewBox "0 0 %d %d"' % (tag, at.get('viewBox'), side, side))
        rects = [e for e in el_off if e[0] == 'rect']
        if not rects or rects[0][1].get('width') not in ('%dpx' % side, '%d' % side) or rects[0][1].get('height') not in ('%dpx' % side, '%d' % side):
            struct_fail.append('no background rect of side %d' % side)
        paths_off = [e for e in el_off if e[0] == 'path']
        paths_on = [e for e in el_on if e[0] == 'path']
        nl = max(1, len(layers))
        if len(paths_off) != nl or len(paths_on) != nl:
            struct_fail.append('%d path elements, expected one per layer (%d)' % (len(paths_off), nl))
        for pe in paths_off:
            if pe[1].get('d', None) != '':
                struct_fail.append('a path draws something when every module is light')
        imgs = [e for e in el_off if e[0] == 'image']
        if len(imgs) != (1 if with_image else 0):
            struct_fail.append('%d image elements, expected %d' % (len(imgs), 1 if with_image else 0))
    # ---- colours: locate attribute texts in the flattened stream and compare with the expected items
    text_on_chars = [(g, ch) for g, ch in flat]

    def find_attr(prefix, occurrence=0):
        """offset (in flat) right after the literal `prefix`, for the given occurrence among unguarded literals"""
        lit = ''.join(chr(ch) if (type(ch) is int and type(g) is int) else '\x00' for g, ch in flat)
        pos = -1
        for _ in range(occurrence + 1):
            pos = lit.find(prefix, pos + 1)
            if pos < 0:
                return None
        return pos + len(prefix)

    def expect_colour(where, off, rgba):
        if off is None:
            struct_fail.append('%s attribute not found' % where)
            return
        exp = colour_items(rgba)
        for j, (eg, ec) in enumerate(exp):
            if off + j >= len(flat):
                struct_fail.append('%s colour truncated' % where)
                return
            g, ch = flat[off + j]
            if type(ch) not in (int, T.Term):
                struct_fail.append('%s colour has a non-character item' % where)
                return
            items.append(('%s colour char %d guard' % (where, j), T.eq(1, g, eg)))
            items.append(('%s colour char %d' % (where, j), T.implies(T.land(g, eg), T.eq(32, ch, ec))))
        endq = flat[off + len(exp)] if off + len(exp) < len(flat) else (1, 0)
        items.append(('%s colour ends after #rrggbb[aa]' % where, 1 if (type(endq[1]) is int and chr(endq[1]) == '"') else 0))
    expect_colour('background fill', find_attr('px" fill="'), cfg['bg'])
    nl = max(1, len(layers))
    for li in range(nl):
        col = layer_cols[li] if li < len(layer_cols) and layer_cols[li] is not None else cfg['fg']
        # fill="..." attributes: occurrence 0 is the background rect
        expect_colour('layer %d fill' % li, find_attr(' fill="', li + 1), col)
    # ---- guarded sub-paths: one per (layer, coordinate), guard == module value, anchored in its cell
    pieces = []          # (guard, text, first offset)
    k = 0
    while k < len(flat):
        g, ch = flat[k]
        if type(g) is not int and (T.support(g) & set('m%d' % i for i in range(min(n * n, 4000)))) or (type(g) is not int and any(s_.startswith('m') for s_ in T.support(g))):
            j = k
            txt = []
            while j < len(flat) and flat[j][0] is g:
                c = flat[j][1]
                txt.append(chr(c) if type(c) is int else PLACEHOLDER)
                j += 1
            pieces.append((g, ''.join(txt), k))
            k = j
        else:
            k += 1
    per_layer = {}
    # assign pieces to layers by counting unguarded `<path d="` literals before them
    lit = ''.join(chr(ch) if (type(ch) is int and type(g) is int) else '\x00' for g, ch in flat)
    path_starts = [m.end() for m in re.finditer(r'<path d="', lit)]
    for (g, txt, off) in pieces:
        li = sum(1 for p in path_starts if p <= off) - 1
        per_layer.setdefault(li, []).append((g, txt))
    var_index = {('m%d' % i): i for i in range(n * n)}
    for li in range(nl):
        ps = per_layer.get(li, [])
        seen = {}
        for (g, txt) in ps:
            sup = T.support(g)
            if len(sup) != 1 or list(sup)[0] not in var_index:
                struct_fail.append('layer %d: a sub-path is guarded by %s, not by one module' % (li, sorted(sup)[:3]))
                continue
            idx = var_index[list(sup)[0]]
            r_, c_ = divmod(idx, n)
            if idx in seen:
                struct_fail.append('layer %d: module (%d,%d) is drawn twice' % (li, r_, c_))
            seen[idx] = True
            items.append(('layer %d: sub-path of module (%d,%d) is present iff the module is dark' % (li, r_, c_), T.eq(1, g, mvals[idx])))
            try:
                x0, y0, x1, y1 = path_bbox(txt)
                if not (c_ + margin - 0.11 <= x0 and x1 <= c_ + margin + 1.11 and r_ + margin - 0.11 <= y0 and y1 <= r_ + margin + 1.11):
                    struct_fail.append('layer %d: sub-path of module (%d,%d) "%s" is not anchored at (%d,%d)' % (li, r_, c_, txt[:30], c_ + margin, r_ + margin))
                if txt.count('M') != 1:
                    struct_fail.append('layer %d: module (%d,%d) has %d sub-paths' % (li, r_, c_, txt.count('M')))
            except Exception as e:
                struct_fail.append('layer %d: cannot read sub-path "%s": %s' % (li, txt[:30], e))
        if len(seen) != n * n:
            struct_fail.append('layer %d: %d modules have a sub-path, expected %d' % (li, len(seen), n * n))
    if -1 in per_layer:
        struct_fail.append('conditional text outside any path element')
    # ---- image href: un-escaping gives the image string back, for every character value (exhaustive per position)
    href_fail = None
    if with_image and not struct_fail:
        off = find_attr('href="')
        if off is None:
            struct_fail.append('image element has no href')
        else:
            # the href value runs up to the next unguarded literal quote
            j = off
            chunk = []
            while j < len(flat) and not (type(flat[j][0]) is int and type(flat[j][1]) is int and chr(flat[j][1]) == '"'):
                chunk.append(flat[j])
                j += 1
            # Per position, all 95 values are evaluated.  That is a complete decision only if the pieces of position i depend
            # on character i alone (checked syntactically on the support of the terms).  If they depend on other characters
            # too (e.g. a prefix test), the other characters are set to the values the guards compare them with (derived from
            # the terms) and to a seeded baseline; finding no failure is then reported as inconclusive, never as held.
            names = ['img%d' % i for i in range(img_len)]
            dependent = False
            special = {}

            def single_var_conds(t, acc, seen):
                stack = [t]
                while stack:
                    x = stack.pop()
                    if not isinstance(x, T.Term) or x.id in seen:
                        continue
                    seen.add(x.id)
                    if x.w == 1 and x.op in ('eq', 'lut', 'ult', 'not'):
                        sup = T.support(x)
                        if len(sup) == 1:
                            acc.append((list(sup)[0], x))
                            continue
                    stack.extend(x.args)
            conds = []
            seen_ids = set()
            for g, ch in chunk:
                single_var_conds(g, conds, seen_ids)
            for nm, cnd in conds:
                if nm not in names:
                    continue
                tv = [k for k in range(95) if T.evaluate(cnd, {nm: k})]
                if 0 < len(tv) <= 3:
                    special.setdefault(nm, []).extend(tv)
            rb = random.Random(seed * 7 + 3)
            baselines = [{nm: rb.randrange(95) for nm in names}]
            if special:
                baselines.append({nm: (special[nm][0] if nm in special else rb.randrange(95)) for nm in names})
            for pos_i in range(img_len):
                name = 'img%d' % pos_i
                mine = [(g, ch) for (g, ch) in chunk if name in (T.support(g) | (T.support(ch) if type(ch) is T.Term else set()))]
                others = set()
                for g, ch in mine:
                    others |= T.support(g) | (T.support(ch) if type(ch) is T.Term else set())
                others.discard(name)
                if others:
                    dependent = True
                for base in (baselines if others else baselines[:1]):
                    for val0 in range(95):
                        env = dict(base)
                        env[name] = val0
                        for o_ in others:
                            env.setdefault(o_, 0)
                        if others:
                            # whole attribute value under this assignment
                            pieces_, want = chunk, ''.join(chr(0x20 + env[nm]) for nm in names)
                        else:
                            pieces_, want = mine, chr(0x20 + val0)
                        out = []
                        cache_ = {}
                        for g, ch in pieces_:
                            gv = g if type(g) is int else T.evaluate(g, env, cache_)
                            if gv:
                                out.append(chr(ch if type(ch) is int else T.evaluate(ch, env, cache_)))
                        txt = ''.join(out)
                        okv = html.unescape(txt) == want and not re.search(r'[<"]|&(?!(amp|lt|gt|quot|apos|#\d+|#x[0-9a-fA-F]+);)', txt)
                        if not okv and href_fail is None:
                            href_fail = (pos_i, 0x20 + val0, txt, dict(env))
            if dependent and href_fail is None:
                raise Inconclusive('the href pieces of one character depend on other characters of the image string; '
                                   'un-escaping was evaluated under %d baselines only and found no failure' % len(baselines))
            res['evaluations'] += 95 * img_len
            items.append(('href: every character value of every position is emitted so that un-escaping gives it back (95 printable values x %d positions evaluated)' % img_len,
                          1 if href_fail is None else 0))
    items.append(('rendering does not modify the QR code', 1 if all(c[0] is b for c, b in zip(qr[0][:n * n], before)) else 0))
    for sf in struct_fail[:5]:
        items.append(('structure: ' + sf, 0))
    pan = [('%s@%s: %s' % (o.kind, o.where, o.msg[:40]), T.implies(T.and_many(list(o.pc)), o.cond)) for o in I.obligations]
    solver = worker_solver(60000, 'z3-new', lut_mode='ite', logic='QF_BV')
    syn, nsolv, fails, unk = discharge(solver, items + pan, eval_search=0, chunk=32)
    res['obligations'] = len(items) + len(pan)
    res['panic_obligations'] = len(pan)
    res['evaluations'] += res['obligations']
    res['discharged'] = res['obligations'] - len(fails) - len(unk)
    name = 'V%02d margin=%d layers=%s image=%s%s' % (v + 1, margin, [(S.SHAPES[sh], 'colour' if c else 'default') for sh, c in layers], img_len if with_image else None,
                                                     '' if order is None else ' setters called as %s' % ','.join(call_order))
    res['nontrivial'] = ['%s #%d' % (name, i) for i, (_, c) in enumerate(items) if type(c) is not int or True]
    res['samples'] = [{'cell': name, 'free': '%d module values, %d colour bytes, %d image characters' % (n * n, 4 * (2 + sum(1 for _, c in layers if c) + (1 if with_image else 0)), img_len if with_image else 0),
                       'string_items': len(flat), 'guarded_pieces': len(pieces), 'obligations': len(items), 'sent_to_solver': nsolv}]
    if unk and not fails:
        raise Inconclusive('solver returned unknown: %s' % unk[:2])
    native = OV.Native(extra['native'])
    if fails:
        lab, model = fails[0]
        model = dict(model or {})
        if href_fail is not None and 'href' in lab:
            model.update({k_: v_ for k_, v_ in href_fail[3].items() if k_.startswith('img')})
            model['img%d' % href_fail[0]] = href_fail[1] - 0x20
        confirmed, what = False, 'not reproduced: %s' % lab
        key = 'C12/svg'
        # the solver's model, then an asymmetric and an all-dark module pattern (structural obligations have no model)
        rr = random.Random(seed + 99)
        envs = [dict(model)]
        e2 = dict(model)
        e2.update({'m%d' % i: 1 if (i // n) * 3 < (i % n) or rr.random() < 0.2 else 0 for i in range(n * n)})
        e3 = dict(model)
        e3.update({'m%d' % i: 1 for i in range(n * n)})
        envs += [e2, e3]
        for name_ in T.all_vars():
            for e_ in envs:
                e_.setdefault(name_, rr.randrange(256) if not name_.startswith('m') else 0)
        req = ''
        for e_ in envs:
            req, doc = native_svg(native, v, n, types, e_, cfg, layers, with_image, img_len, margin, call_order if order is not None else None)
            if doc is None:
                confirmed, what = True, 'to_str panics: %s' % req[:80]
                break
            problem = semantic_problem(doc, v, n, e_, margin, layers, with_image, [0x20 + e_.get('img%d' % i, 0x21) % 95 for i in range(img_len)])
            if problem:
                confirmed = True
                what = problem
                if 'href' in problem or ('well-formed' in problem and with_image):
                    key = 'C12/image.href-escaping'
                break
        res['failures'].append({'key': key, 'what': what, 'confirmed': confirmed, 'obligation': lab, 'replay': {'request': req[:4000]}})
    res['vacuity'] = 1 if solver.check([T.eq(1, mvals[0], 1)])[0] == 'sat' else 0
    # translator validation: a concrete configuration through the native builder
    env = {'m%d' % i: rnd.randrange(2) for i in range(n * n)}
    for nm in T.all_vars():
        if nm not in env:
            env[nm] = rnd.randrange(128 if nm.startswith('img') else 256)
    for i in range(img_len):
        env['img%d' % i] = rnd.choice(b'abcXYZ019/:._-&<"') - 0x20
    req, doc = native_svg(native, v, n, types, env, cfg, layers, with_image, img_len, margin, call_order if order is not None else None)
    mine = S.render_concrete(list(s[0]), env)
    res['validation']['cases'] += 1
    if doc != mine:
        res['validation']['disagreements'] += 1
        raise Inconclusive('translator validation failed for the SVG builder (%s)' % name)
    native.close()
    q = solver_counts(solver)
    q['syntactic'] = syn
    res['queries'] = q
    res['solver_time_s'] = solver.time_s
    solver.close()
    res.update(interp_stats(I))
    return res


def native_svg(native, v, n, types, env, cfg, layers, with_image, img_len, margin, call_order=None):
    def col(name):
        return bytes(env.get('%s_%s' % (name, ch), 0) & 0xFF for ch in 'rgba').hex()
    mod = bytes(types[i] | (env.get('m%d' % i, 0) & 1) for i in range(n * n))
    parts = ['svg', 'v=%d' % v, 'mod=%s' % mod.hex(), 'margin=%d' % margin, 'bg=%s' % col('bg'), 'fg=%s' % col('fg')]
    if layers:
        parts.append('layers=' + ','.join(('%d:%s' % (sh, col('l%d' % li))) if c else str(sh) for li, (sh, c) in enumerate(layers)))
    if with_image:
        img = bytes(0x20 + env.get('img%d' % i, 0x21) % 95 for i in range(img_len))
        parts.append('image=%s' % (img.hex() if img else '-'))
        parts.append('ibg=%s' % col('ibg'))
    if call_order:
        parts.append('order=' + ','.join(call_order))
    req = ' '.join(parts)
    ans = native.ask(req)
    if ans.startswith('PANIC') or ans == 'ABORT':
        return ans, None
    f = OV.parse_fields(ans)
    return req, bytes.fromhex(f['svg']).decode('utf-8')


def semantic_problem(doc, v, n, env, margin, layers, with_image, img):
    """independent check of a concrete native SVG document -> description of the first problem or None"""
    side = n + 2 * margin
    try:
        els = parse_xml(doc)
    except xml.parsers.expat.ExpatError as e:
        return 'SVG is not well-formed XML (%s) with image string %r' % (e, bytes(img)) if with_image else 'SVG is not well-formed XML (%s)' % e
    if els[0][0] != 'svg' or els[0][1].get('viewBox') != '0 0 %d %d' % (side, side):
        return 'viewBox is %r, expected "0 0 %d %d"' % (els[0][1].get('viewBox'), side, side)
    def colour_text(name):
        c = [env.get('%s_%s' % (name, ch), 0) & 0xFF for ch in 'rgba']
        return '#%02x%02x%02x' % tuple(c[:3]) + ('%02x' % c[3] if c[3] != 255 else '')
    rects = [e for e in els if e[0] == 'rect']
    if not rects or rects[0][1].get('fill') != colour_text('bg'):
        return 'background fill is %r, the configured background colour is %s' % (rects[0][1].get('fill') if rects else None, colour_text('bg'))
    paths = [e for e in els if e[0] == 'path']
    if len(paths) != max(1, len(layers)):
        return '%d path elements for %d layers' % (len(paths), max(1, len(layers)))
    for li, pe in enumerate(paths):
        want_col = colour_text('l%d' % li) if (li < len(layers) and layers[li][1]) else colour_text('fg')
        if pe[1].get('fill') != want_col:
            return 'layer %d is filled with %r, its colour is %s' % (li, pe[1].get('fill'), want_col)
        subs = ['M' + t for t in pe[1].get('d', '').split('M')[1:]]
        want = [(i // n, i % n) for i in range(n * n) if env.get('m%d' % i, 0) & 1]
        if len(subs) != len(want):
            return 'layer %d has %d sub-paths for %d dark modules' % (li, len(subs), len(want))
        got = set()
        for t in subs:
            try:
                x0, y0, x1, y1 = path_bbox(t)
            except (ValueError, IndexError) as e:
                return 'layer %d: sub-path %r is not readable path data (%s)' % (li, t[:24], e)
            if not re.match(r'^[MmLlHhVvAaZz0-9eE .,+-]*$', t):
                return 'layer %d: sub-path %r contains characters that are not path data' % (li, t[:24])
            got.add((int((y0 + y1) / 2) - margin, int((x0 + x1) / 2) - margin))
        if got != set(want):
            miss = sorted(set(want) - got)[:2]
            return 'layer %d: dark modules %s have no sub-path anchored at (column+margin,row+margin)' % (li, miss)
    if with_image:
        ims = [e for e in els if e[0] == 'image']
        if len(ims) != 1:
            return '%d image elements' % len(ims)
        if ims[0][1].get('href') != bytes(img).decode('latin1'):
            return 'href of the image element is %r, the image string is %r' % (ims[0][1].get('href'), bytes(img).decode('latin1'))
    return None


def main(argv):
    chk = Check('C12', argv, features='svg')
    chk.rule = ('per cell (version, margin, layer list, image): one obligation per symbolic character (cannot be markup), per colour character, '
                'per (layer, module) guard, plus structural checks of the document skeleton; non-trivial = involves free variables')
    chk.load()
    cells = []
    rng = chk.rng
    vs = [0] if chk.tier == 'quick' else [0, 1, 6]
    for v in vs:
        cells += [
            (v, 4, [], False, 0), (v, 0, [(0, False)], False, 0), (v, 2, [(1, False), (2, True)], False, 0),
            (v, 1, [(3, True), (4, False), (5, True)], False, 0), (v, 4, [(0, True)], True, 6), (v, 0, [], True, 3),
            (v, rng.randrange(0, 9), [(rng.randrange(6), bool(rng.randrange(2))) for _ in range(rng.randrange(1, 4))], True, 8),
        ]
    # coordinates with three and four digits (hand-written number formatting breaks at 100 / 1000)
    cells += [(0, 95, [(0, False)], False, 0), (0, 990, [(rng.randrange(1, 6), True), (0, False)], True, 3)]
    if chk.tier == 'thorough':
        cells.append((39, 4, [(0, False)], True, 4))
        cells.append((20, 0, [(0, False), (3, True)], False, 0))
        for m in range(0, 9):
            cells.append((0, m, [(rng.randrange(6), True)], False, 0))
    native_path = chk.ov.native(chk.features)
    jobs = [c + (chk.seed,) for c in cells]
    # the same small cells with the setter calls shuffled: every setter but the layer calls only has a final value
    jobs += [c + (chk.seed, chk.seed * 31 + k + 1) for k, c in enumerate(cells) if c[0] == 0 and c[1] < 50]
    chk.jobs(job_cell, jobs, extra={'native': native_path})
    chk.cov['cells'] = len(jobs)
    chk.bounds += ['every V1 cell a second time with the setter calls in a seed-chosen order (layer calls keep their relative order)', '%d cells: versions %s, margins 0..8 and 95, 990 (coordinates of 3 and 4 digits), layer lists of length 0..3 over the 6 built-in shapes with and without per-layer colour, image strings of 3..8 ASCII characters' % (len(cells), [v + 1 for v in vs]),
                   'within a cell: every module value, every RGBA byte of every colour and every image character (7-bit) symbolic']
    chk.outside += ['non-ASCII image characters (never markup-significant)', 'custom Shape::Command callbacks', 'the decimal text of the image geometry numbers (C18 checks their values)',
                    'Color given as a string by the caller (inserted verbatim by design)']
    chk.assumptions += ['String/format! models (code-point sequences with guarded pieces) trusted, validated against the native builder output per cell',
                        'well-formedness for all valuations is concluded from: skeleton parses with expat, no symbolic character can be < & ", conditional pieces are plain text inside attribute values']
    chk.finish()


if __name__ == '__main__':
    main(sys.argv[1:])
