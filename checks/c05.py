"""C05 - smallest sufficient version; over-capacity is an error (DESIGN.md 4/C05)."""
import sys
import os

sys.path.insert(0, os.path.dirname(os.path.dirname(os.path.abspath(__file__))))
from checks.common import *          # noqa: F401,F403
from checks import kconfirm

MODE_N = ['numeric', 'alnum', 'byte']
LVL_N = ['l', 'm', 'q', 'h']


def main(argv):
    chk = Check('C05', argv, features='svg')
    chk.rule = ('Kani checks inside 24 harnesses (mode x level x {len <= 2^40, len > 2^40}) with the payload length a free usize; '
                'non-trivial = every CBMC property of a harness whose input is symbolic; distinct by (harness, property index)')
    chk.load()
    specs = []
    for m in range(3):
        for l in range(4):
            specs.append({'harness': 'c05_get_%s_%s' % (MODE_N[m], LVL_N[l]), 'key': 'C05/version-threshold',
                          'confirm': kconfirm.version_get(m, l),
                          'symbolic': 'len: usize <= 2^40 (all values), w: any version >= the chosen one'})
            specs.append({'harness': 'c05_huge_%s_%s' % (MODE_N[m], LVL_N[l]), 'key': 'C05/version-threshold',
                          'confirm': kconfirm.version_get(m, l), 'symbolic': 'len: usize > 2^40 (all values)'})
    chk.run_kani(specs)
    try:
        from checks import gate
        gate.run(chk)
    except ImportError:
        chk.outside.append('forced-version gate of QRCode::new (engine slice not built in this snapshot)')
    chk.bounds += ['payload length: every usize value (two harness families split at 2^40); 3 modes x 4 levels enumerated as separate harnesses',
                   'monotonicity: every version w >= the chosen one (symbolic) still holds the payload (covers every forced larger version)']
    chk.assumptions += ['Kani/CBMC bit-precise model of the compiled crate (dev profile, overflow checks on), unwinding assertions on (unwind 41 for the 40-version reference scan)',
                        'reference capacity = 4 + count bits + payload bits <= 8 * ISO data codewords, from Table 9 data typed into the harness and cross-checked in iso.py against the qrcode crate']
    chk.finish()


if __name__ == '__main__':
    main(sys.argv[1:])
