"""C06 - data codewords follow the ISO 7.4 bit-stream encoding bit for bit (DESIGN.md 4/C06).

S stage: the real `encode::encode` (MIR of the current tree) per (version, level, mode, length) cell with every
payload byte symbolic (assumed in the mode's alphabet), compared with the oracle's 7.4 encoder on terms; plus one
inductive step of CompactQR::push_bits from an arbitrary valid buffer state; plus Kani on cci_bits."""
import random
import sys
import os

sys.path.insert(0, os.path.dirname(os.path.dirname(os.path.abspath(__file__))))
from checks.common import *          # noqa: F401,F403
from engine.mirsym import SliceRef, Ptr, L

ALNUM_SET = [ord(c) for c in iso.ALNUM]


def alphabet_assumptions(mode, xs):
    if mode == 0:
        return [T.ult(8, T.sub(8, x, 0x30), 10) for x in xs]
    if mode == 1:
        tbl = [1 if i in ALNUM_SET else 0 for i in range(256)]
        return [T.lut(tbl, x, 1) for x in xs]
    return []


def capacity_chars(v, level, mode):
    """largest n that fits version v (1-based)"""
    n = 0
    lo, hi = 0, 8000
    while lo < hi:
        mid = (lo + hi + 1) // 2
        if iso.fits(v, level, mode, mid):
            lo = mid
        else:
            hi = mid - 1
    return lo


def random_payload(rnd, mode, n):
    if mode == 0:
        return [rnd.choice(b'0123456789') for _ in range(n)]
    if mode == 1:
        return [rnd.choice(ALNUM_SET) for _ in range(n)]
    return [rnd.randrange(256) for _ in range(n)]


def run_encode(prog, xs, l, m, v):
    I = M.Interp(prog)
    buf = I.mk(list(xs))
    r = I.call_fn(prog.resolve('encode'), [SliceRef(buf, 0, len(xs)), l, m, v])
    return I, r


def job_cell(job):
    v, l, m, lengths, seed, nval = job[:6]
    full_limit = job[6] if len(job) > 6 else 1 << 30
    prog = worker_prog()
    extra = worker_extra()
    level, mode = iso.LEVELS[l], iso.MODES[m]
    res = {'evaluations': 0, 'obligations': 0, 'discharged': 0, 'failures': [], 'nontrivial': [], 'samples': [],
           'validation': {'cases': 0, 'disagreements': 0}, 'vacuity': 0, 'panic_obligations': 0,
           'queries': {'issued': 0, 'unsat': 0, 'sat': 0, 'unknown': 0, 'syntactic': 0}, 'solver_time_s': 0.0,
           'functions': {}, 'lib': {}}
    native = OV.Native(extra['native'])
    rnd = random.Random(seed * 977 + v * 131 + l * 17 + m)
    dc = iso.data_codewords(v + 1, level)
    pending_inc = []
    for n in lengths:
        T.reset()
        if m != 2 and n > full_limit:
            # long numeric/alphanumeric payload: the first 6 and the last 12 characters are symbolic, the middle is a fixed
            # seed-chosen string of the alphabet (every group costs the solver ~0.1 s; stated in the bounds)
            mid = random_payload(rnd, m, n)
            xs = [T.var('c%d' % i, 8) if (i < 6 or i >= n - 12) else mid[i] for i in range(n)]
            res['windowed'] = res.get('windowed', 0) + 1
        else:
            xs = [T.var('c%d' % i, 8) for i in range(n)]
        asm = alphabet_assumptions(m, [x for x in xs if type(x) is not int])
        try:
            I, r = run_encode(prog, xs, l, m, v)
        except M.Unsupported as e:
            # the executor cannot follow this cell symbolically (e.g. a data-dependent bit length makes buffer indices
            # symbolic).  Never "held": refute by a native differential against the oracle on seed-chosen payloads of this
            # cell if possible, otherwise report the cell as inconclusive.
            bad = None
            for t in range(60):
                data = random_payload(rnd, m, n)
                if t < 10 and n >= 2:
                    data[-2] = {0: 0x30, 1: 0x30, 2: 0}[m]
                ans = native.ask('encode %s %d %d %d' % (OV.hexs(data), l, m, v))
                ref = iso.encode_codewords(v + 1, level, mode, data)
                if ans.startswith('PANIC') or ans == 'ABORT':
                    bad = (data, 'encode panics (%s)' % ans[:60])
                    break
                nat = list(bytes.fromhex(OV.parse_fields(ans)['data']))[:dc]
                if nat != ref:
                    bad = (data, 'data codewords are %s..., ISO 7.4 gives %s...' % (bytes(nat[:12]).hex(), bytes(ref[:12]).hex()))
                    break
            res['validation']['cases'] += 60
            if bad is None:
                pending_inc.append('unsupported construct in V%02d-%s %s n=%d (%s); 60 native payloads agree with the oracle' % (v + 1, level, mode, n, e))
                continue
            res['failures'].append({'key': 'C06/bitstream', 'confirmed': True,
                                    'what': '%s for %r (%s, V%02d-%s) [cell not executable symbolically: %s; found by native differential]' % (
                                        bad[1], bytes(bad[0]), mode, v + 1, level, str(e)[:60]),
                                    'replay': {'request': 'encode %s %d %d %d' % (OV.hexs(bad[0]), l, m, v)}})
            continue
        if r is M.DEAD:
            raise Inconclusive('encode diverges for every payload of length %d' % n)
        got = list(r[1][0])[:dc]
        want = iso.encode_codewords(v + 1, level, mode, xs)
        items = [('codeword[%d]' % i, T.eq(8, a, b)) for i, (a, b) in enumerate(zip(got, want))]
        items.append(('bit length', T.eq(64, r[0], max(8 * dc, len(r[1][0])))) if False else ('codeword count', 1 if len(got) == dc else 0))
        pan = [('%s@%s: %s' % (o.kind, o.where, o.msg[:40]), T.implies(T.and_many(list(o.pc)), o.cond)) for o in I.obligations]
        solver = worker_solver(60000, 'z3-new', lut_mode='ite', logic='QF_BV')
        for a_ in asm:
            solver.assume(a_)
        syn, nsolv, fails, unk = discharge(solver, items + pan, eval_search=0 if asm else 8, chunk=8)
        res['obligations'] += len(items) + len(pan)
        res['panic_obligations'] += len(pan)
        res['evaluations'] += len(items) + len(pan)
        res['discharged'] += len(items) + len(pan) - len(fails) - len(unk)
        nt = sum(1 for _, c in items + pan if type(c) is not int)
        res['nontrivial'] += ['V%02d-%s %s n=%d #%d' % (v + 1, level, mode, n, i) for i in range(max(nt, min(n, 1) * 0))]
        if len(res['samples']) < 2 and n:
            res['samples'].append({'cell': 'V%02d-%s %s' % (v + 1, level, mode), 'payload_length': n, 'free_bytes': n,
                                   'assumed': {0: 'every byte is an ASCII digit', 1: 'every byte is in the 45-character set', 2: 'none'}[m],
                                   'obligations': len(items) + len(pan), 'sent_to_solver': nsolv,
                                   'example': 'encode(input)[..%d] == ISO 7.4 bit stream packed into bytes' % dc})
        if unk and not fails:
            raise Inconclusive('solver returned unknown (V%02d-%s %s n=%d): %s' % (v + 1, level, mode, n, unk[:2]))
        for lab, model in fails[:1]:
            model = model or {}
            data = [xs[i] if type(xs[i]) is int else model.get('c%d' % i, 0x30 if m == 0 else 0x41 if m == 1 else 0) for i in range(n)]
            ans = native.ask('encode %s %d %d %d' % (OV.hexs(data), l, m, v))
            req = 'encode %s %d %d %d' % (OV.hexs(data), l, m, v)
            confirmed, what = False, 'model not reproduced (%s)' % lab
            ok_alpha = all((0x30 <= c <= 0x39) if m == 0 else (c in ALNUM_SET) if m == 1 else True for c in data)
            if not ok_alpha:
                what = 'solver model violates the alphabet assumption'
            elif ans.startswith('PANIC') or ans == 'ABORT':
                confirmed, what = True, 'encode panics (%s) for %r in %s mode at V%02d-%s' % (ans[:70], bytes(data), mode, v + 1, level)
            else:
                f = OV.parse_fields(ans)
                nat = list(bytes.fromhex(f['data']))[:dc]
                ref = iso.encode_codewords(v + 1, level, mode, data)
                if nat != ref:
                    confirmed = True
                    what = 'data codewords of %r (%s, V%02d-%s) are %s, ISO 7.4 gives %s' % (
                        bytes(data), mode, v + 1, level, bytes(nat).hex(), bytes(ref).hex())
            res['failures'].append({'key': 'C06/bitstream', 'what': what, 'confirmed': confirmed, 'obligation': lab,
                                    'replay': {'request': req, 'expect': bytes(iso.encode_codewords(v + 1, level, mode, data)).hex() if ok_alpha else None}})
        # vacuity: against the oracle for a payload with the first character changed the comparison must be refutable
        if n:
            x0 = xs[0]
            other = T.bxor(8, x0, 1) if m != 1 else T.lut([ALNUM_SET[(ALNUM_SET.index(i) + 1) % 45] if i in ALNUM_SET else 0 for i in range(256)], x0, 8)
            bad = iso.encode_codewords(v + 1, level, mode, [other] + xs[1:])
            a, _ = solver.check([T.or_many([T.ne(8, p, q) for p, q in zip(got[:4], bad[:4])])])
            if a != 'sat':
                raise Inconclusive('vacuity witness not satisfiable (%s)' % a)
            res['vacuity'] += 1
        # translator validation
        for t in range(nval):
            data = random_payload(rnd, m, n)
            data = [xs[i] if type(xs[i]) is int else data[i] for i in range(n)]
            Ic, rc = run_encode(prog, data, l, m, v)
            ans = native.ask('encode %s %d %d %d' % (OV.hexs(data), l, m, v))
            f = OV.parse_fields(ans)
            nat = list(bytes.fromhex(f['data']))
            env = {'c%d' % i: data[i] for i in range(n)}
            cache = {}
            sym = [T.evaluate(x, env, cache) for x in r[1][0]]
            res['validation']['cases'] += 1
            if list(rc[1][0]) != nat or sym != nat or int(f['len']) != rc[0]:
                res['validation']['disagreements'] += 1
                raise Inconclusive('translator validation failed: encode %s %d %d %d' % (OV.hexs(data), l, m, v))
        q = solver_counts(solver)
        for k in q:
            res['queries'][k] += q[k]
        res['queries']['syntactic'] += syn
        res['solver_time_s'] += solver.time_s
        solver.close()
        st = interp_stats(I)
        for k, val in st['functions'].items():
            res['functions'][k] = res['functions'].get(k, 0) + val
        for k, val in st['lib'].items():
            res['lib'][k] = res['lib'].get(k, 0) + val
    native.close()
    if pending_inc and not res['failures']:
        raise Inconclusive(pending_inc[0])
    return res


def _cell_panics(job, exc, extra):
    """encode() reached a panic on every path for some length of this cell: find the length natively"""
    v, l, m, lengths, seed, nval = job[:6]
    native = OV.Native(extra['native'])
    rnd = random.Random(seed + 5)
    res = {'failures': [], 'obligations': 1, 'evaluations': 1, 'discharged': 0, 'validation': {'cases': 0, 'disagreements': 0}}
    for n in lengths:
        data = random_payload(rnd, m, n)
        req = 'encode %s %d %d %d' % (OV.hexs(data), l, m, v)
        ans = native.ask(req)
        res['validation']['cases'] += 1
        if ans.startswith('PANIC') or ans == 'ABORT':
            res['failures'].append({'key': 'C06/bitstream', 'confirmed': True,
                                    'what': 'encode panics for every %s payload of length %d at V%02d-%s: %s (executor: %s)' % (
                                        iso.MODES[m], n, v + 1, iso.LEVELS[l], ans[:80], str(exc)[:80]),
                                    'replay': {'request': req}})
            break
    native.close()
    if not res['failures']:
        return None
    return res


job_cell.on_concrete_panic = _cell_panics


def job_push_bits(job):
    """one inductive step of CompactQR::push_bits: arbitrary valid buffer (bits >= len are zero), arbitrary value"""
    blen, width, nbytes = job
    prog = worker_prog()
    res = {'evaluations': 0, 'obligations': 0, 'discharged': 0, 'failures': [], 'nontrivial': [], 'samples': [],
           'validation': {'cases': 0, 'disagreements': 0}, 'vacuity': 0, 'panic_obligations': 0}
    I = M.Interp(prog)
    bs = [T.var('b%d' % i, 8) for i in range(nbytes)]
    val = T.var('bits', 64)
    # representation invariant: every bit at position >= blen is zero
    asm = []
    for i in range(nbytes):
        lo = i * 8
        if lo >= blen:
            asm.append(T.eq(8, bs[i], 0))
        elif lo + 8 > blen:
            keep = blen - lo
            asm.append(T.eq(8, T.band(8, bs[i], 0xFF >> keep), 0))
    buf = I.mk(list(bs), 'buf')
    vec = I.mk([buf, nbytes], 'Vec')
    cq = I.mk([blen, vec], 'CompactQR')
    cell = I.mk([cq])
    r = I.call_fn(prog.resolve('CompactQR::push_bits'), [Ptr(cell, 0), val, width])
    if r is M.DEAD:
        raise Inconclusive('push_bits diverges')
    out = list(cq[1][0])
    items = [('len', 1 if cq[0] == blen + width else 0)]

    def bit_of(byte_list, k):
        if k // 8 >= len(byte_list):
            return 0
        return T.extract_bit(8, byte_list[k // 8], 7 - k % 8)
    nb_out = len(out)
    for k in range(nb_out * 8):
        g = bit_of(out, k)
        if k < blen:
            w = bit_of(bs, k)
        elif k < blen + width:
            w = T.extract_bit(64, val, width - 1 - (k - blen))
        else:
            w = 0
        items.append(('bit %d' % k, T.eq(1, g, w)))
    pan = [('%s@%s: %s' % (o.kind, o.where, o.msg[:40]), T.implies(T.and_many(list(o.pc)), o.cond)) for o in I.obligations]
    solver = worker_solver(60000, 'z3-new', lut_mode='ite', logic='QF_BV')
    for a_ in asm:
        solver.assume(a_)
    syn, nsolv, fails, unk = discharge(solver, items + pan, eval_search=0, chunk=16)
    res['obligations'] = len(items) + len(pan)
    res['panic_obligations'] = len(pan)
    res['evaluations'] = res['obligations']
    res['discharged'] = res['obligations'] - len(fails) - len(unk)
    res['nontrivial'] = ['push_bits len=%d width=%d #%d' % (blen, width, i) for i, (_, c) in enumerate(items + pan) if type(c) is not int]
    if blen == 5 and width == 11:
        res['samples'] = [{'step': 'CompactQR::push_bits from an arbitrary valid state', 'len_before': blen, 'width': width,
                           'free': '%d buffer bytes (invariant: bits >= len are 0), bits: usize' % nbytes,
                           'obligations': len(items) + len(pan)}]
    if unk and not fails:
        raise Inconclusive('solver unknown in push_bits step (%d,%d)' % (blen, width))
    for lab, model in fails[:1]:
        model = model or {}
        # the inductive pre-state may be unreachable; report only if the native build reproduces it from a real history:
        # emulate by pushing the prefix bits one by one, then the value
        res['failures'].append({'key': 'C06/push_bits', 'confirmed': False,
                                'what': 'push_bits step (len=%d, width=%d) differs from the bit-append specification: %s' % (blen, width, lab),
                                'replay': {'model': {k: model.get(k) for k in list(model)[:12]}}})
    a, _ = solver.check([T.ne(64, val, 0)])
    if a == 'sat':
        res['vacuity'] = 1
    else:
        raise Inconclusive('push_bits precondition unsatisfiable')
    q = solver_counts(solver)
    q['syntactic'] = syn
    res['queries'] = q
    res['solver_time_s'] = solver.time_s
    solver.close()
    res.update(interp_stats(I))
    return res


def cell_lengths(v, l, m, tier, rng):
    level, mode = iso.LEVELS[l], iso.MODES[m]
    cap = capacity_chars(v + 1, level, mode)
    s = set()
    if v < 3 or tier == 'thorough' and v < 2:
        s.update(range(0, min(7, cap + 1)))
        s.update(range(max(0, cap - (12 if (tier == 'thorough' or v == 0) else 4)), cap + 1))
    elif tier == 'quick':
        # count-width class representatives: short payloads and the three lengths at capacity
        s.update([1, 2, 3, 4, 5, cap - 2, cap - 1, cap])       # the capacity lengths are windowed above 200 characters
    else:
        s.update([cap, cap - 1, cap - 2])
        if tier == 'thorough':
            s.update([0, 1, 2, 3, cap // 2])
    return sorted(x for x in s if 0 <= x <= cap)


def main(argv):
    chk = Check('C06', argv, features='svg')
    chk.rule = ('one obligation per data codeword (plus every panic/overflow obligation met) per (version, level, mode, length) cell with '
                'all payload bytes symbolic; non-trivial = obligation has free variables; distinct by (cell, length, index)')
    chk.load()
    def confirm_cci(values, native):
        v, m = values[0] % 40, values[1] % 3
        data = {0: b'12345', 1: b'AB12 ', 2: b'hello'}[m]
        req = 'encode %s 0 %d %d' % (OV.hexs(data), m, v)
        ans = native.ask(req)
        if ans.startswith('PANIC') or ans == 'ABORT':
            return True, 'encode panics: %s' % ans[:80], {'request': req}
        f = OV.parse_fields(ans)
        dc = iso.data_codewords(v + 1, 'L')
        nat = list(bytes.fromhex(f['data']))[:dc]
        ref = iso.encode_codewords(v + 1, 'L', iso.MODES[m], list(data))
        if nat != ref:
            return True, ('character-count field of %s mode at version %d has the wrong width: data codewords of %r start %s, ISO 7.4 gives %s'
                          % (iso.MODES[m], v + 1, data, bytes(nat[:4]).hex(), bytes(ref[:4]).hex())), {'request': req}
        return False, 'kani counterexample (version %d, %s) not reproduced' % (v + 1, iso.MODES[m]), {'request': req}
    chk.run_kani([{'harness': 'c06_cci_bits', 'key': 'C06/cci-bits', 'confirm': confirm_cci,
                   'symbolic': 'version index < 40, mode index < 3'}])
    native_path = chk.ov.native(chk.features)
    jobs = []
    if chk.tier == 'quick':
        # V1: every level and mode; V2, V3: one seed-chosen level per mode; count-width class representatives
        cells = [(0, l, m) for l in range(4) for m in range(3)]
        for v in (1, 2):
            for m in range(3):
                cells.append((v, chk.rng.randrange(4), m))
        for v in (8, 9, 25, 26, 39):
            l = chk.rng.randrange(4)
            for m in range(3):
                cells.append((v, l, m))
    else:
        cells = [(v, l, m) for v in range(40) for l in range(4) for m in range(3)]
    for (v, l, m) in cells:
        lens = cell_lengths(v, l, m, chk.tier, chk.rng)
        if chk.tier == 'thorough' and v < 2:
            cap = capacity_chars(v + 1, iso.LEVELS[l], iso.MODES[m])
            lens = list(range(cap + 1))
        jobs.append((v, l, m, lens, chk.seed, 1 if chk.tier == 'quick' else 2, 200 if chk.tier == 'quick' else 700))
    jobs.sort(key=lambda j: -(j[0] * len(j[3])))
    rs = chk.jobs(job_cell, jobs, extra={'native': native_path})
    chk.cov['windowed_runs'] = sum(r.get('windowed', 0) for r in rs)
    # inductive step of push_bits: every alignment 0..24 x every width 0..16
    pj = [(bl, w, 6) for bl in (range(0, 25) if chk.tier == 'thorough' else range(0, 17)) for w in range(0, 17)]
    chk.jobs(job_push_bits, pj, extra={'native': native_path})
    chk.cov['cells'] = len(cells)
    chk.cov['push_bits_steps'] = len(pj)
    chk.bounds += ['cells (version, level, mode): %d; lengths per cell (quick: V1 all levels/modes and V2, V3 one level per mode at 0..6 and cap-4..cap (V1: cap-12..cap); '
                   'V9/V10/V26/V27/V40 one level at 1..5 and cap-2..cap; thorough: all 480 cells at 0..3, cap/2, cap-2..cap, every length for V1-V2)' % len(cells),
                   'payload lengths are enumerated, payload contents are symbolic (every byte of the mode alphabet at every position); '
                   'numeric/alphanumeric payloads longer than %d characters are windowed: first 6 and last 12 characters symbolic, the middle a fixed '
                   'seed-chosen string (%d such runs)' % (200 if chk.tier == 'quick' else 700, chk.cov['windowed_runs']),
                   'push_bits: buffer length 0..%d bits x width 0..16, buffer bytes and value symbolic' % (24 if chk.tier == 'thorough' else 16)]
    chk.outside += ['lengths between the listed ones for versions >= 3 (the packers have no length-dependent behaviour beyond residues mod 3/2 and the terminator, which the listed lengths cover)',
                    'forced modes whose alphabet does not contain the input (documented panic)']
    chk.assumptions += ['alphabet assumption per mode (digits / 45-set); automatic mode selects a mode whose alphabet contains the input (C09)',
                        'term normaliser + library models (Vec, slices, ranges, chunks_exact) trusted, validated by concrete runs against the native build']
    chk.finish()


if __name__ == '__main__':
    main(sys.argv[1:])
