"""Shared plumbing of the per-property checks: overlay/program loading, worker pool,
solver handling, replay + VIOLATION reporting, known findings, evidence."""
import hashlib
import json
import multiprocessing
import os
import random
import signal
import sys
import time
import traceback

VERIF = os.path.dirname(os.path.dirname(os.path.abspath(__file__)))
if VERIF not in sys.path:
    sys.path.insert(0, VERIF)

from engine import overlay as OV            # noqa: E402
from engine import mirsym as M              # noqa: E402
from engine import terms as T               # noqa: E402
from engine import smt                      # noqa: E402
from engine import iso                      # noqa: E402
from engine import oracle_selfcheck         # noqa: E402

EXIT_OK, EXIT_VIOLATION, EXIT_INCONCLUSIVE, EXIT_ORACLE = 0, 1, 2, 3


class Inconclusive(Exception):
    pass


def seed_from_env():
    try:
        return int(os.environ.get('VERIF_SEED', '0'))
    except ValueError:
        return 0


def tier_from(args):
    t = os.environ.get('VERIF_TIER')
    if '--tier' in args:
        t = args[args.index('--tier') + 1]
    if '--thorough' in args:
        t = 'thorough'
    return t if t in ('quick', 'thorough') else 'quick'


# ---------------------------------------------------------------- worker pool

_G = {}


def _init_worker(mir_text, src_root, extra):
    _G['prog'] = M.Program(mir_text, src_root)
    _G['extra'] = extra
    _G['solver'] = None


def worker_prog():
    return _G['prog']


def worker_extra():
    return _G.get('extra')


def worker_solver(timeout_ms=60000, which='z3', lut_mode='uf', logic='ALL'):
    """fresh solver for a job (terms are reset per job, so definitions cannot be shared).
    lut_mode/logic: 'uf'/'ALL' for deeply nested tables (Reed-Solomon), 'ite'/'QF_BV' for shallow arithmetic"""
    return smt.Solver(which, timeout_ms=timeout_ms, lut_mode=lut_mode, logic=logic)


def _run_job(arg):
    fn, job = arg
    t0 = time.time()
    T.reset()
    try:
        r = fn(job)
        r.setdefault('status', 'ok')
    except M.Unsupported as e:
        r = {'status': 'inconclusive', 'reason': 'unsupported construct: %s' % e}
    except smt.SolverError as e:
        r = {'status': 'inconclusive', 'reason': 'solver: %s' % e}
    except Inconclusive as e:
        # a job that had already confirmed a violation natively keeps it: what could not be concluded afterwards (vacuity
        # witness, translator validation on another input) does not un-confirm a replayed witness
        r = None
        tb = e.__traceback__
        while tb is not None:
            cand = tb.tb_frame.f_locals.get('res')
            if isinstance(cand, dict) and any(f_.get('confirmed') for f_ in cand.get('failures', []) if isinstance(f_, dict)):
                r = cand
                break
            tb = tb.tb_next
        if r is None:
            r = {'status': 'inconclusive', 'reason': str(e)}
        else:
            r['status'] = 'ok'
            r.setdefault('notes', []).append('not concluded after the confirmed violation: %s' % e)
    except M.ConcretePanic as e:
        # a panic reached with an empty path condition: the code panics for every value of the symbolic inputs of this run.
        # The job may know how to replay that natively (-> confirmed violation); otherwise it is inconclusive.
        r = None
        h = getattr(fn, 'on_concrete_panic', None)
        if h is not None:
            try:
                r = h(job, e, worker_extra())
            except Exception as e2:
                r = {'status': 'inconclusive', 'reason': 'concrete panic in engine run (%s); native replay failed: %s' % (e, e2)}
        if r is None:
            r = {'status': 'inconclusive', 'reason': 'unexpected concrete panic in engine run: %s' % e}
        r.setdefault('status', 'ok')
    except Exception as e:       # engine fault: never report as held
        r = {'status': 'inconclusive', 'reason': 'engine fault: %s\n%s' % (e, traceback.format_exc()[-1500:])}
    r['job'] = repr(job) if len(repr(job)) < 160 else repr(job)[:157] + '...'
    r['wall_s'] = round(time.time() - t0, 3)
    return r


def run_jobs(fn, jobs, mir_text, src_root, extra=None, procs=None, job_timeout=None, pool_deadline=None):
    """run fn(job) for every job in forked worker processes; fn must be a module-level function.
    Own single-threaded scheduler (no multiprocessing.Pool: its handler threads fork replacement workers from a threaded
    parent, which deadlocked children twice).  A worker that dies (crash, OOM kill) makes its job inconclusive and is
    replaced; a global deadline turns a hang into an inconclusive result."""
    import pickle
    import select
    import struct
    procs = procs or min(16, os.cpu_count() or 4, max(1, len(jobs)))
    if procs <= 1 or len(jobs) <= 1:
        _init_worker(mir_text, src_root, extra)
        return [_run_job((fn, j)) for j in jobs]
    deadline = time.time() + float(os.environ.get('VERIF_POOL_DEADLINE_S', pool_deadline or 7200))
    job_timeout = float(os.environ.get('VERIF_JOB_TIMEOUT_S', job_timeout or 1800))
    results = [None] * len(jobs)
    nxt = 0
    workers = {}          # result fd -> [pid, job fd (write), current job index, read buffer]

    def send(fd, obj):
        data = pickle.dumps(obj)
        os.write(fd, struct.pack('<Q', len(data)))
        view = memoryview(data)
        while view:
            n = os.write(fd, view[:1 << 16])
            view = view[n:]

    def spawn():
        jr, jw = os.pipe()          # parent -> worker: job indices
        rr, rw = os.pipe()          # worker -> parent: results
        sys.stdout.flush()
        sys.stderr.flush()
        pid = os.fork()
        if pid == 0:
            code = 0
            try:
                os.close(jw)
                os.close(rr)
                for fd_ in list(workers):
                    try:
                        os.close(fd_)
                        os.close(workers[fd_][1])
                    except OSError:
                        pass
                signal.signal(signal.SIGTERM, signal.SIG_DFL)
                signal.signal(signal.SIGINT, signal.SIG_DFL)
                _init_worker(mir_text, src_root, extra)
                while True:
                    hdr = os.read(jr, 8)
                    if len(hdr) < 8:
                        break
                    k = struct.unpack('<q', hdr)[0]
                    if k < 0:
                        break
                    send(rw, (k, _run_job((fn, jobs[k]))))
            except BaseException:
                code = 1
            finally:
                os._exit(code)
        os.close(jr)
        os.close(rw)
        workers[rr] = [pid, jw, None, b'', time.time()]
        return rr

    def feed(rr):
        nonlocal nxt
        w = workers[rr]
        if nxt < len(jobs):
            w[2] = nxt
            w[4] = time.time()
            os.write(w[1], struct.pack('<q', nxt))
            nxt += 1
        else:
            w[2] = None
            try:
                os.write(w[1], struct.pack('<q', -1))
            except OSError:
                pass

    def retire(rr, kill=False):
        w = workers.pop(rr)
        if kill:
            try:
                os.kill(w[0], signal.SIGKILL)
            except OSError:
                pass
        for fd_ in (rr, w[1]):
            try:
                os.close(fd_)
            except OSError:
                pass
        try:
            os.waitpid(w[0], 0)
        except OSError:
            pass

    try:
        for _ in range(min(procs, len(jobs))):
            feed(spawn())
        while workers:
            left = deadline - time.time()
            if left <= 0:
                break
            ready, _, _ = select.select(list(workers), [], [], min(left, 10.0))
            now = time.time()
            for rr in [r_ for r_ in workers if r_ not in ready]:
                w = workers[rr]
                if w[2] is not None and now - w[4] > job_timeout:
                    k = w[2]
                    retire(rr, kill=True)
                    results[k] = {'status': 'inconclusive', 'reason': 'job exceeded its time limit of %.0f s (worker killed)' % job_timeout,
                                  'job': repr(jobs[k])[:160]}
                    if nxt < len(jobs):
                        feed(spawn())
            for rr in ready:
                w = workers[rr]
                chunk = os.read(rr, 1 << 20)
                if not chunk:
                    # worker gone without an answer for its job
                    k = w[2]
                    retire(rr)
                    if k is not None and results[k] is None:
                        results[k] = {'status': 'inconclusive', 'reason': 'worker process died (killed or crashed) while running this job',
                                      'job': repr(jobs[k])[:160]}
                    if nxt < len(jobs):
                        feed(spawn())
                    continue
                w[3] += chunk
                while len(w[3]) >= 8:
                    n = struct.unpack('<Q', w[3][:8])[0]
                    if len(w[3]) < 8 + n:
                        break
                    k, r = pickle.loads(w[3][8:8 + n])
                    w[3] = w[3][8 + n:]
                    results[k] = r
                    feed(rr)
    finally:
        for rr in list(workers):
            retire(rr, kill=True)
    for k, r in enumerate(results):
        if r is None:
            results[k] = {'status': 'inconclusive', 'reason': 'worker pool exceeded its deadline before this job finished', 'job': repr(jobs[k])[:160]}
    return results


# ---------------------------------------------------------------- known findings

def load_known():
    p = os.path.join(VERIF, 'known_findings.json')
    if not os.path.isfile(p):
        return {'open': [], 'fixed': []}
    with open(p) as fh:
        return json.load(fh)


# ---------------------------------------------------------------- the check run

class Check:
    def __init__(self, pid, argv, features='svg'):
        self.pid = pid
        self.tier = tier_from(argv)
        self.seed = seed_from_env()
        self.rng = random.Random(self.seed * 1000003 + int(pid[1:]))
        self.t0 = time.time()
        self.features = features
        self.ov = OV.Overlay()
        self.mir_text = None
        self.violations = []      # (key, description, replay path)
        self.known_hits = []
        self.inconclusive = []
        self.cov = {
            'evaluations': 0, 'distinct_nontrivial': 0, 'samples': [],
            'functions_encoded': {}, 'library_models_used': {}, 'stubs': [],
            'queries': {'issued': 0, 'unsat': 0, 'sat': 0, 'unknown': 0, 'syntactic': 0},
            'solver_time_s': 0.0, 'cross_checked_queries': 0, 'vacuity_witnesses': 0,
            'translator_validation': {'concrete_cases': 0, 'disagreements': 0},
            'obligations': 0, 'discharged': 0, 'panic_obligations': 0,
        }
        self.assumptions = []
        self.bounds = []
        self.outside = []
        self._nontrivial = set()
        self.phases = []          # (what, seconds): where the wall time of this run went

    def _phase(self, what, t0):
        self.phases.append([what, round(time.time() - t0, 1)])

    # -- loading
    def load(self):
        t_load = time.time()
        probs, n_ext = oracle_selfcheck.run(verbose=False)
        if probs:
            print('ORACLE-FAULT: ' + '; '.join(probs))
            self.finish_exit(EXIT_ORACLE)
        self.cov['oracle_cross_checks'] = n_ext
        try:
            self.mir_text = self.ov.mir(self.features)
        except RuntimeError as e:
            print('INCONCLUSIVE property=%s the MIR dump of the current tree failed (does it compile?)' % self.pid)
            print(str(e)[-2000:])
            self.finish_exit(EXIT_INCONCLUSIVE)
        self.cov['mir'] = {'lines': self.mir_text.count('\n'), 'source_digest': self.ov.source_digest(),
                           'repo': self.ov.repo}
        self._phase('overlay + MIR dump', t_load)
        return self.mir_text

    def native(self, release=False):
        t = time.time()
        path = self.ov.native(self.features, release)
        if time.time() - t > 1:
            self._phase('native replay build', t)
        return OV.Native(path)

    def jobs(self, fn, jobs, extra=None, procs=None):
        t = time.time()
        res = run_jobs(fn, jobs, self.mir_text, self.ov.dir, extra, procs, job_timeout=900 if self.tier == 'quick' else 3600,
                       pool_deadline=1500 if self.tier == 'quick' else 7200)
        for r in res:
            self.absorb(r)
        slow = sorted(((r.get('wall_s', 0), str(r.get('job'))[:60]) for r in res), reverse=True)[:3]
        self._phase('%s x %d (slowest: %s)' % (getattr(fn, '__name__', 'jobs'), len(jobs),
                                               ', '.join('%s %.0fs' % (j, w) for w, j in slow)), t)
        return res

    def absorb(self, r):
        """merge a job result's counters into the coverage"""
        c = self.cov
        for k, v in r.get('functions', {}).items():
            c['functions_encoded'][k] = c['functions_encoded'].get(k, 0) + v
        for k, v in r.get('lib', {}).items():
            c['library_models_used'][k] = c['library_models_used'].get(k, 0) + v
        q = r.get('queries', {})
        for k in c['queries']:
            c['queries'][k] += q.get(k, 0)
        c['solver_time_s'] += r.get('solver_time_s', 0.0)
        c['mir_statements_executed'] = c.get('mir_statements_executed', 0) + r.get('steps', 0)
        c['symbolic_path_states'] = c.get('symbolic_path_states', 0) + r.get('arms', 0)
        c['evaluations'] += r.get('evaluations', 0)
        c['obligations'] += r.get('obligations', 0)
        c['discharged'] += r.get('discharged', 0)
        c['panic_obligations'] += r.get('panic_obligations', 0)
        c['vacuity_witnesses'] += r.get('vacuity', 0)
        c['cross_checked_queries'] += r.get('cross_checked', 0)
        tv = r.get('validation', {})
        c['translator_validation']['concrete_cases'] += tv.get('cases', 0)
        c['translator_validation']['disagreements'] += tv.get('disagreements', 0)
        for s in r.get('nontrivial', []):
            self._nontrivial.add(s if isinstance(s, str) else json.dumps(s, sort_keys=True))
        for s in r.get('samples', []):
            if len(c['samples']) < 12:
                c['samples'].append(s)
        for st in r.get('stubs', []):
            if st not in c['stubs']:
                c['stubs'].append(st)
        if r.get('status') == 'inconclusive':
            self.inconclusive.append('%s: %s' % (r.get('job'), r.get('reason')))
        for f in r.get('failures', []):
            self.failure(f)

    # -- engine K
    def run_kani(self, specs, jobs=16, timeout=None):
        """specs: list of dict(harness=..., key=..., confirm=callable(values, native) -> (confirmed, what, replay) or None,
        symbolic=description of the harness's free variables)"""
        from engine import kani as K
        names = [sp['harness'] for sp in specs]
        if timeout is None:
            # the harnesses take 10-60 s each on the unchanged tree (C05's 24 together 90 s): a run that needs more than
            # 10 minutes in the quick tier is reported as a timeout (inconclusive), not waited for
            timeout = 600 if self.tier == 'quick' else 3000
        t_k = time.time()
        results, wall, built, err = K.run(self.ov, names, features=self.features or 'svg', jobs=jobs, timeout=timeout)
        self._phase('kani x %d' % len(names), t_k)
        self.cov.setdefault('kani', {'harnesses': [], 'wall_s': 0.0, 'version': 'Kani 0.68.0 / CBMC 6.11.0 (CaDiCaL)'})
        self.cov['kani']['wall_s'] += round(wall, 1)
        if not built:
            self.inconclusive.append('cargo kani did not build the overlay: %s' % err[-600:])
            return results
        native = None
        for sp in specs:
            r = results[sp['harness']]
            d = r.as_dict()
            d['symbolic'] = sp.get('symbolic', '')
            self.cov['kani']['harnesses'].append(d)
            self.cov['solver_time_s'] += r.time_s
            self.cov['evaluations'] += r.checks
            self.cov['obligations'] += r.checks
            self.cov['queries']['issued'] += 1
            if r.status == 'success':
                self.cov['discharged'] += r.checks
                self.cov['queries']['unsat'] += 1
                self.cov['vacuity_witnesses'] += r.cover_sat
                if r.cover_total and r.cover_sat < r.cover_total:
                    self.inconclusive.append('kani harness %s: only %d of %d cover witnesses reachable (vacuity)' % (r.name, r.cover_sat, r.cover_total))
                for i in range(r.checks):
                    self._nontrivial.add('kani:%s#%d' % (r.name, i))
                if len(self.cov['samples']) < 12:
                    self.cov['samples'].append({'kani_harness': r.name, 'free_variables': sp.get('symbolic', ''), 'checks': r.checks,
                                                'cover_witnesses': '%d/%d' % (r.cover_sat, r.cover_total), 'cbmc_time_s': r.time_s})
            elif r.status == 'failed':
                self.cov['queries']['sat'] += 1
                self.cov['discharged'] += r.checks - r.failed
                conf = sp.get('confirm')
                confirmed, what, replay = False, 'kani: %s' % '; '.join(r.failed_desc[:2]), {'kani_values': r.values}
                if conf is not None and r.values is not None:
                    if native is None:
                        native = self.native()
                    try:
                        confirmed, what, replay = conf(r.values, native) if not sp.get('raw') else conf(r.raw_values, native)
                    except Exception as e:
                        confirmed, what = False, 'replay of kani counterexample failed: %s' % e
                self.failure({'key': sp.get('key', '%s/kani' % self.pid), 'what': what, 'confirmed': confirmed,
                              'harness': r.name, 'replay': replay})
            else:
                self.cov['queries']['unknown'] += 1
                self.inconclusive.append('kani harness %s: %s' % (r.name, r.status))
        if native is not None:
            native.close()
        return results

    # -- failures
    def failure(self, f):
        """f: dict(key, what, replay (dict of request lines -> expectation), confirmed (bool))"""
        if not f.get('confirmed'):
            self.inconclusive.append('counterexample not reproduced natively (engine fault?): %s %s' % (f.get('key'), f.get('what')))
            return
        known = load_known()
        for k in known.get('open', []):
            if k.get('property') == self.pid and k.get('key') == f.get('key'):
                msg = 'KNOWN-FINDING: property=%s %s' % (self.pid, k.get('what', f.get('what')))
                if msg not in self.known_hits:
                    self.known_hits.append(msg)
                return
        if len(self.violations) >= 5:
            self.cov['violations_not_listed'] = self.cov.get('violations_not_listed', 0) + 1
            return
        d = os.path.join(VERIF, 'replays', self.pid)
        os.makedirs(d, exist_ok=True)
        body = json.dumps(f, sort_keys=True, indent=1)
        name = hashlib.sha1(body.encode()).hexdigest()[:12] + '.json'
        path = os.path.join(d, name)
        with open(path, 'w') as fh:
            fh.write(body)
        self.violations.append((f.get('key'), f.get('what'), path))

    # -- finish
    def finish(self, level='model_checking', explanation=None):
        self.cov['distinct_nontrivial'] = len(self._nontrivial)
        self.cov['rule'] = self.rule if hasattr(self, 'rule') else ''
        self.cov['bounds'] = self.bounds
        self.cov['outside_bounds'] = self.outside
        self.cov['solver_time_s'] = round(self.cov['solver_time_s'], 3)
        self.cov['timings'] = self.ov.timings
        self.cov['inconclusive'] = self.inconclusive[:20]
        self.cov['known_findings_hit'] = self.known_hits
        self.cov['solver_versions'] = solver_versions()
        if explanation:
            self.cov['explanation'] = explanation
        if self.cov.get('mir_statements_executed'):
            # bounded symbolic execution seen as a state space: states = symbolic path states (branch arms explored and
            # merged, plus one initial state per run), transitions = MIR statements executed symbolically
            self.cov['states'] = self.cov['symbolic_path_states']
            self.cov['transitions'] = self.cov['mir_statements_executed']
            self.cov['traces_validated_against_impl'] = self.cov['translator_validation']['concrete_cases']
        code = EXIT_OK
        if self.inconclusive:
            code = EXIT_INCONCLUSIVE
        if self.violations:
            code = EXIT_VIOLATION
        self.cov['wall_phases'] = self.phases
        ev = {
            'property_id': self.pid, 'tier': self.tier, 'seed': self.seed, 'level': level,
            'coverage': self.cov, 'assumptions': self.assumptions,
            'wall_s': round(time.time() - self.t0, 2), 'violations': len(self.violations),
            'exit_code': code,
        }
        os.makedirs(os.path.join(VERIF, 'evidence'), exist_ok=True)
        with open(os.path.join(VERIF, 'evidence', self.pid + '.json'), 'w') as fh:
            json.dump(ev, fh, indent=1, sort_keys=True)
        for m in self.known_hits:
            print(m)
        for key, what, path in self.violations:
            print('VIOLATION property=%s replay=%s' % (self.pid, path))
            print('  %s: %s' % (key, what))
        for m in self.inconclusive[:10]:
            print('INCONCLUSIVE property=%s %s' % (self.pid, m))
        q = self.cov['queries']
        print('%s %s: %d obligations (%d discharged), queries issued=%d unsat=%d sat=%d unknown=%d syntactic=%d, solver %.1fs, wall %.1fs -> exit %d'
              % (self.pid, self.tier, self.cov['obligations'], self.cov['discharged'], q['issued'], q['unsat'], q['sat'],
                 q['unknown'], q['syntactic'], self.cov['solver_time_s'], time.time() - self.t0, code))
        self.finish_exit(code)

    def finish_exit(self, code):
        try:
            self.ov.close()
        except Exception:
            pass
        sys.stdout.flush()
        sys.exit(code)


_sv = None


def solver_versions():
    global _sv
    if _sv is None:
        import subprocess
        out = {}
        for name, cmd in (('z3', ['/usr/bin/z3', '--version']), ('cvc5', ['cvc5', '--version'])):
            try:
                out[name] = subprocess.run(cmd, capture_output=True, text=True).stdout.strip().splitlines()[0]
            except Exception as e:
                out[name] = 'unavailable: %s' % e
        _sv = out
    return _sv


# ---------------------------------------------------------------- helpers for jobs

def interp_stats(I):
    return {'functions': dict(I.fn_counts), 'lib': dict(I.lib_used), 'steps': I.steps, 'arms': I.arms + 1}


def eval_search_cex(pending, assumptions, n, seed=0):
    names = {}
    for c in [c_ for _, c_ in pending] + list(assumptions):
        for v in T.support(c):
            names[v] = T.all_vars()[v].w
    rnd = random.Random(seed + len(names))
    tries = []
    tries.append({k: 0 for k in names})
    tries.append({k: (1 << w) - 1 for k, w in names.items()})
    for _ in range(n):
        tries.append({k: rnd.getrandbits(w) for k, w in names.items()})
    for env in tries:
        for k, below in T.VAR_RANGE.items():
            if k in env:
                env[k] %= below
        cache = {}
        if any(T.evaluate(a, env, cache) == 0 for a in assumptions):
            continue
        for label, cond in pending:
            if T.evaluate(cond, env, cache) == 0:
                return (label + ' [witness found by term evaluation]', env)
    return None


def discharge(solver, items, assumptions=(), want_model=True, eval_search=16, chunk=100000):
    """items: list of (label, cond) where cond (width-1 int/term) must hold under the solver's
    permanent assumptions.  Syntactically true ones are counted, the rest are sent in one batch
    query (assert the disjunction of the negations); on sat each is queried separately.
    -> (n_syntactic, n_solver, failures [(label, model)], unknowns [label])"""
    syn = 0
    pending = []
    failures = []
    for label, cond in items:
        if type(cond) is int:
            if cond & 1:
                syn += 1
            else:
                failures.append((label, {}))
            continue
        pending.append((label, cond))
    unknowns = []
    if pending and eval_search:
        # cheap counterexample search on the encoding itself (term evaluation under a few assignments);
        # only ever used to *find* a witness faster - a pass here proves nothing and the solver still decides
        cex = eval_search_cex(pending, assumptions, eval_search)
        if cex is not None:
            failures.append(cex)
            return syn, len(pending), failures, unknowns
    for lo in range(0, len(pending), chunk):
        part = pending[lo:lo + chunk]
        neg = T.or_many([T.lnot(c) for _, c in part])
        ans, model = solver.check(list(assumptions) + [neg], want_model=want_model)
        if ans == 'unsat':
            continue
        if ans == 'sat':
            # one model violates at least one obligation: find which by evaluating them under it
            env = dict(model or {})
            for name in T.all_vars():
                env.setdefault(name, 0)
            hit = False
            cache = {}
            for label, cond in part:
                if T.evaluate(cond, env, cache) == 0:
                    failures.append((label, model))
                    hit = True
                    break
            if not hit:
                unknowns.append('model does not falsify any obligation of the batch')
            break
        if len(part) <= 4 and not solver.dead:
            for label, cond in part:
                a, model = solver.check(list(assumptions) + [T.lnot(cond)], want_model=want_model)
                if a == 'sat':
                    failures.append((label, model))
                elif a == 'unknown':
                    unknowns.append(label)
        else:
            unknowns.extend(label for label, _ in part[:3])
        if failures or unknowns:
            break
    return syn, len(pending), failures, unknowns
    if pending:
        neg = T.or_many([T.lnot(c) for _, c in pending])
        ans, model = solver.check(list(assumptions) + [neg], want_model=want_model)
        if ans == 'unsat':
            pass
        elif ans == 'sat':
            # one model violates at least one obligation: find which by evaluating them under it
            env = dict(model or {})
            for name in T.all_vars():
                env.setdefault(name, 0)
            hit = False
            for label, cond in pending:
                if T.evaluate(cond, env) == 0:
                    failures.append((label, model))
                    hit = True
                    if len(failures) >= 3:
                        break
            if not hit:
                unknowns.append('model does not falsify any obligation (assumption-dependent?)')
        else:
            if len(pending) <= 3 and not solver.dead:
                for label, cond in pending:
                    a, model = solver.check(list(assumptions) + [T.lnot(cond)], want_model=want_model)
                    if a == 'sat':
                        failures.append((label, model))
                    elif a == 'unknown':
                        unknowns.append(label)
            else:
                unknowns.extend(label for label, _ in pending[:5])
    return syn, len(pending), failures, unknowns


def solver_counts(solver):
    return {'issued': solver.n_queries, 'unsat': solver.stats['unsat'], 'sat': solver.stats['sat'],
            'unknown': solver.stats['unknown']}


# ---------------------------------------------------------------- accumulation chains

def _find_pred(t, w):
    """first `acc + k` node met going down an ite tree: returns acc"""
    stack = [t]
    seen = 0
    while stack and seen < 10000:
        x = stack.pop()
        seen += 1
        if not isinstance(x, T.Term):
            continue
        if x.op == 'add' and x.w == w and (x.args[0].op == 'const' or x.args[1].op == 'const'):
            return x.args[1] if x.args[0].op == 'const' else x.args[0]
        if x.op == 'ite' and x.w == w:
            stack.append(x.args[2])
            stack.append(x.args[1])
    return None


def peel_chain(t, w=32, limit=200000):
    """Decompose an accumulator term built as  acc = cond ? acc + k : acc  (any nesting of ite) repeated many times.
    -> (base, [(condition term, increment)] newest first); decomposition stops at the first term not of that shape."""
    steps = []
    cur = t
    n = 0
    while isinstance(cur, T.Term) and n < limit:
        n += 1
        if cur.op == 'add' and cur.w == w and cur.args[0].op == 'const':
            steps.append((1, cur.args[0].val))
            cur = T._u(cur.args[1])
            continue
        if cur.op != 'ite' or cur.w != w:
            break
        pred = _find_pred(cur, w)
        if pred is None:
            break
        incs = {}
        ok = True
        stack = [(cur, [])]
        while stack:
            x, pc = stack.pop()
            if x is pred:
                continue
            if isinstance(x, T.Term) and x.op == 'add' and x.w == w and \
                    ((x.args[0].op == 'const' and x.args[1] is pred) or (x.args[1].op == 'const' and x.args[0] is pred)):
                k = x.args[0].val if x.args[0].op == 'const' else x.args[1].val
                incs.setdefault(k, []).append(T.and_many(pc))
                continue
            if isinstance(x, T.Term) and x.op == 'ite' and x.w == w:
                c, a, b = x.args
                stack.append((a, pc + [c]))
                stack.append((b, pc + [T.lnot(c)]))
                continue
            ok = False
            break
        if not ok or not incs:
            break
        for k, conds in sorted(incs.items()):
            steps.append((T.or_many(conds), k))
        cur = T._u(pred)
    return cur, steps
