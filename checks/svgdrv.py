"""Driving the real SvgBuilder API (MIR) from Python: default() + setter calls + to_str."""
import sys
import os

sys.path.insert(0, os.path.dirname(os.path.dirname(os.path.abspath(__file__))))
from checks.common import *          # noqa: F401,F403
from engine.mirsym import SliceRef, Ptr, L, Guarded, NumPiece, Float

SHAPES = ['Square', 'Circle', 'RoundedSquare', 'Vertical', 'Horizontal', 'Diamond']


def resolve_trait(prog, self_ty, trait, meth):
    f = prog.resolve('<%s as %s>::%s' % (self_ty, trait, meth))
    if f is None:
        raise M.Unsupported('cannot resolve <%s as %s>::%s' % (self_ty, trait, meth))
    return f


def new_builder(I, prog):
    b = I.call_fn(resolve_trait(prog, 'SvgBuilder', 'Default', 'default'), [])
    cell = I.mk([b])
    return cell, Ptr(cell, 0)


def shape_val(I, idx):
    return I.mk([idx], 'enum')


def color_arr(I, vals):
    return I.mk(list(vals))


def call_setter(I, prog, bp, name, args, subst=None):
    f = resolve_trait(prog, 'SvgBuilder', 'Builder', name)
    return I.call_fn(f, [bp] + list(args), subst)


def string_val(I, items):
    return I.lib.new_string(items)


def configure(I, prog, bp, cfg, order=None):
    """cfg keys: margin, bg, fg (4 scalars), layers [(shape idx, colour or None)], image (list of code points),
    ibg, ishape, isize, igap, ipos.
    order: None = canonical order of the setter calls; an int = seed of a shuffle of the calls (the layer calls keep their
    relative order, which is part of the configuration; every other setter only has a final value, so the rendering must
    not depend on where it was called).  Returns the list of setter names in the order they were called."""
    calls = []
    if 'margin' in cfg:
        calls.append(('margin', [cfg['margin']], None))
    if 'bg' in cfg:
        calls.append(('background_color', [color_arr(I, cfg['bg'])], {'C': '[u8; 4]'}))
    if 'fg' in cfg:
        calls.append(('module_color', [color_arr(I, cfg['fg'])], {'C': '[u8; 4]'}))
    for (sh, col) in cfg.get('layers', []):
        if col is None:
            calls.append(('shape', [shape_val(I, sh)], None))
        else:
            calls.append(('shape_color', [shape_val(I, sh), color_arr(I, col)], {'C': '[u8; 4]'}))
    if 'image' in cfg:
        calls.append(('image', [string_val(I, cfg['image'])], None))
    if 'ibg' in cfg:
        calls.append(('image_background_color', [color_arr(I, cfg['ibg'])], {'C': '[u8; 4]'}))
    if 'ishape' in cfg:
        calls.append(('image_background_shape', [cfg['ishape']], None))
    if 'isize' in cfg:
        calls.append(('image_size', [cfg['isize']], None))
    if 'igap' in cfg:
        calls.append(('image_gap', [cfg['igap']], None))
    if 'ipos' in cfg:
        calls.append(('image_position', [cfg['ipos'][0], cfg['ipos'][1]], None))
    if order is not None:
        import random as _r
        rr = _r.Random(order)
        layer_calls = [c for c in calls if c[0] in ('shape', 'shape_color')]
        other = [c for c in calls if c[0] not in ('shape', 'shape_color')]
        rr.shuffle(other)
        # interleave: the layer calls keep their relative order
        slots = sorted(rr.sample(range(len(calls)), len(layer_calls))) if layer_calls else []
        merged, li, oi = [], 0, 0
        for k in range(len(calls)):
            if li < len(slots) and k == slots[li]:
                merged.append(layer_calls[li])
                li += 1
            else:
                merged.append(other[oi])
                oi += 1
        calls = merged
    for name, args, subst in calls:
        call_setter(I, prog, bp, name, args, subst)
    return [c[0] for c in calls]


def make_qr(I, n, cells):
    data = I.mk([I.mk([c], 'Module') for c in cells] + [I.mk([0], 'Module') for _ in range(177 * 177 - n * n)])
    qr = I.mk([data, n, I.mk([0], 'enum'), I.mk([0], 'enum'), I.mk([0], 'enum'), I.mk([0], 'enum')], 'QRCode')
    return qr


def to_str(I, prog, bp, qr):
    cell = I.mk([qr])
    s = I.call_fn(prog.resolve('SvgBuilder::to_str'), [bp, Ptr(cell, 0)])
    return s


def flatten(items, guard=1, out=None):
    """string items -> list of (guard term, char/NumPiece)"""
    if out is None:
        out = []
    for it in items:
        if type(it) is Guarded:
            flatten(it.items, T.land(guard, it.cond), out)
        else:
            out.append((guard, it))
    return out


def render_concrete(items, env):
    """evaluate a symbolic string under a variable assignment -> Python str"""
    out = []
    cache = {}
    for g, ch in flatten(items):
        gv = g if type(g) is int else T.evaluate(g, env, cache)
        if not gv:
            continue
        if type(ch) is int:
            out.append(chr(ch))
        elif type(ch) is T.Term:
            out.append(chr(T.evaluate(ch, env, cache)))
        elif type(ch) is NumPiece:
            raise M.Unsupported('formatted number piece in concrete rendering')
        else:
            raise M.Unsupported('string item %r' % (ch,))
    return ''.join(out)
