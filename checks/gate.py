"""Glue contracts (DESIGN.md 3, stage G), decided for symbolic option values:

 gate  QRCode::new with Version::get and placement::create_matrix uninterpreted: Err(EncodedData) iff no version fits,
       Err(SpecifiedVersion) iff a forced version is smaller than the automatic one, otherwise create_matrix is called with
       the forced version if given else the automatic one, level defaulting to Q, mode defaulting to best_encoding(input),
       and the caller's mask option.
 glue  placement::create_matrix with encode / structure / place_on_matrix uninterpreted: the stages are wired with the same
       (input, level, mode, version), the stream length is 8*total+remainder bits, and the reported fields are the arguments."""
import sys
import os

sys.path.insert(0, os.path.dirname(os.path.dirname(os.path.abspath(__file__))))
from checks.common import *          # noqa: F401,F403
from engine.mirsym import SliceRef, Ptr, L


def sym_option(I, name, w, below):
    some = T.var(name + '_some', 1)
    val = T.var(name + '_val', w, below=below)
    return I.mk([T.zext(1, 64, some), val], 'enum'), some, val


def job_gate(job):
    input_bytes, = job
    prog = worker_prog()
    res = {'evaluations': 0, 'obligations': 0, 'discharged': 0, 'failures': [], 'nontrivial': [], 'samples': [],
           'validation': {'cases': 0, 'disagreements': 0}, 'vacuity': 0,
           'stubs': ['Version::get -> arbitrary Option<Version> (fresh variables), arguments logged',
                     'placement::create_matrix -> QRCode whose fields carry the arguments it was called with']}
    I = M.Interp(prog)
    calls = {'get': [], 'cm': []}
    a_some = T.var('auto_some', 1)
    a_val = T.var('auto_val', 8, below=40)

    def stub_get(I_, args):
        calls['get'].append(list(args))
        return I_.mk([T.zext(1, 64, a_some), a_val], 'enum')

    def stub_cm(I_, args):
        inp, ecl, mode, version, maskptr = args
        calls['cm'].append((tuple(I_.pc), list(args)))
        m = I_.copy_val(maskptr.c[maskptr.k])
        # encode the arguments in the returned QRCode: size <- input length, version/ecl/mode/mask <- args
        return I_.mk([UNITV, inp.len, I_.mk([1, version], 'enum'), I_.mk([1, ecl], 'enum'), m, I_.mk([1, mode], 'enum')], 'QRCode')

    UNITV = ()
    I.stubs['Version::get'] = stub_get
    I.stubs['placement::create_matrix'] = stub_cm
    I.stubs['create_matrix'] = stub_cm
    buf = I.mk(list(input_bytes))
    ecl_o, e_some, e_val = sym_option(I, 'ecl', 8, 4)
    ver_o, f_some, f_val = sym_option(I, 'forced', 8, 40)
    mode_o, m_some, m_val = sym_option(I, 'mode', 8, 3)
    mask_o, k_some, k_val = sym_option(I, 'mask', 8, 8)
    f_new = prog.resolve('QRCode::new')
    r = I.call_fn(f_new, [SliceRef(buf, 0, len(buf)), ecl_o, ver_o, mode_o, mask_o])
    if r is M.DEAD:
        raise Inconclusive('QRCode::new diverges')
    items = []
    # what Version::get was asked
    if all(0x30 <= c <= 0x39 for c in input_bytes):
        auto_mode = 0
    elif all(chr(c) in iso.ALNUM for c in input_bytes):
        auto_mode = 1
    else:
        auto_mode = 2
    want_mode = T.ite(8, m_some, m_val, auto_mode)
    want_ecl = T.ite(8, e_some, e_val, 2)             # default level Q
    items.append(('Version::get called exactly once', 1 if len(calls['get']) == 1 else 0))
    if calls['get']:
        g = calls['get'][0]
        items.append(('Version::get receives the mode in effect', T.eq(8, g[0], want_mode)))
        items.append(('Version::get receives the level in effect (default Q)', T.eq(8, g[1], want_ecl)))
        items.append(('Version::get receives the input length', 1 if g[2] == len(input_bytes) else 0))
    disc = r[0]
    too_small = T.land(f_some, T.ult(8, f_val, a_val))
    want_err = T.lor(T.lnot(a_some), too_small)
    items.append(('Err iff nothing fits or the forced version is too small', T.eq(1, T.trunc(64, 1, disc), want_err)))
    if r.tag == 'symenum':
        errf = r[1].get(1)
        okf = r[1].get(0)
    else:
        errf = r[1:] if r[0] == 1 else None
        okf = r[1:] if r[0] == 0 else None
    if errf is not None:
        code = errf[0]
        items.append(('error is EncodedData iff no version fits, else SpecifiedVersion',
                      T.implies(want_err, T.eq(8, code, T.ite(8, a_some, 1, 0)))))
    else:
        items.append(('an Err value exists', 0))
    if okf is not None:
        q = okf[0]
        ok = T.lnot(want_err)
        want_v = T.ite(8, f_some, f_val, a_val)
        items.append(('create_matrix gets the forced version if given, else the automatic one', T.implies(ok, T.eq(8, q[2][1], want_v))))
        items.append(('create_matrix gets the level in effect (default Q)', T.implies(ok, T.eq(8, q[3][1], want_ecl))))
        items.append(('create_matrix gets the mode in effect (default best_encoding)', T.implies(ok, T.eq(8, q[5][1], want_mode))))
        items.append(('create_matrix gets the whole input', T.implies(ok, T.eq(64, q[1], len(input_bytes)))))
        items.append(('create_matrix gets the caller\'s mask option (presence)', T.implies(ok, T.eq(64, q[4][0], T.zext(1, 64, k_some)))))
        items.append(('create_matrix gets the caller\'s mask option (value)', T.implies(T.land(ok, k_some), T.eq(8, q[4][1] if len(q[4]) > 1 else 0, k_val))))
    else:
        items.append(('an Ok value exists', 0))
    pan = [('%s@%s' % (o.kind, o.where), T.implies(T.and_many(list(o.pc)), o.cond)) for o in I.obligations]
    solver = worker_solver(60000, 'z3-new')
    syn, nsolv, fails, unk = discharge(solver, items + pan, eval_search=0, chunk=1)
    res['obligations'] = len(items) + len(pan)
    res['panic_obligations'] = len(pan)
    res['evaluations'] = res['obligations']
    res['discharged'] = res['obligations'] - len(fails) - len(unk)
    res['nontrivial'] = ['gate input=%s #%d' % (bytes(input_bytes).hex()[:16], i) for i, (_, c) in enumerate(items) if type(c) is not int]
    res['samples'] = [{'entry': 'QRCode::new', 'input': bytes(input_bytes).decode('latin1'),
                       'free': 'ecl/version/mode/mask options (presence and value), result of Version::get (presence and value)',
                       'obligations': [lab for lab, _ in items]}]
    if unk and not fails:
        raise Inconclusive('solver unknown: %s' % unk[:2])
    for lab, model in fails[:2]:
        res['failures'].append({'key': 'gate/' + lab.split(' ')[0], 'what': 'QRCode::new: %s fails for %s' % (lab, {k: v for k, v in (model or {}).items()}),
                                'confirmed': False, 'model': model, 'obligation': lab, 'input': bytes(input_bytes).hex()})
    a, _ = solver.check([T.lnot(want_err)])
    b, _ = solver.check([want_err])
    if a == 'sat' and b == 'sat':
        res['vacuity'] = 2
    else:
        raise Inconclusive('gate vacuity witnesses not satisfiable')
    q = solver_counts(solver)
    q['syntactic'] = syn
    res['queries'] = q
    res['solver_time_s'] = solver.time_s
    solver.close()
    res.update(interp_stats(I))
    return res


def confirm_gate(chk, f, native):
    """replay a gate counterexample through the real build: options from the model, check version/err outcome"""
    model = f.get('model') or {}
    inp = bytes.fromhex(f['input'])
    def opt(name):
        return str(model.get(name + '_val', 0)) if model.get(name + '_some', 0) else '-'
    req = 'build %s %s %s %s %s' % (OV.hexs(inp), opt('ecl'), opt('forced'), opt('mode'), opt('mask'))
    ans = native.ask(req)
    # expected outcome from the oracle
    if model.get('mode_some', 0):
        mode = model.get('mode_val', 0) % 3
    else:
        mode = 0 if all(0x30 <= c <= 0x39 for c in inp) else (1 if all(chr(c) in iso.ALNUM for c in inp) else 2)
    level = model.get('ecl_val', 0) % 4 if model.get('ecl_some', 0) else 2
    auto = iso.min_version(iso.LEVELS[level], iso.MODES[mode], len(inp))
    forced = model.get('forced_val', 0) % 40 + 1 if model.get('forced_some', 0) else None
    if auto is None:
        want = 'ERR EncodedData'
    elif forced is not None and forced < auto:
        want = 'ERR SpecifiedVersion'
    else:
        want = 'OK version=%d ecl=%d mode=%d' % ((forced or auto) - 1, level, mode)
    if ans.startswith('OK'):
        fl = OV.parse_fields(ans)
        got = 'OK version=%s ecl=%s mode=%s' % (fl['version'], fl['ecl'], fl['mode'])
    else:
        got = ans[:60]
    f['replay'] = {'request': req, 'expect': want}
    if got != want:
        f['confirmed'] = True
        f['what'] = 'build(%r, ecl=%s, version=%s, mode=%s, mask=%s) gives "%s", expected "%s"' % (
            inp, opt('ecl'), opt('forced'), opt('mode'), opt('mask'), got, want)
        return f
    # the model's (short) input does not show it: the gate's decisions depend on the input through its length only, so probe
    # the capacity boundaries natively (witness search after a symbolic failure; never used to pass)
    w = probe_gate(native)
    if w is not None:
        f['confirmed'] = True
        f['what'] = '%s  [%s]' % (w[0], f.get('what', ''))
        f['replay'] = {'request': w[1], 'expect': w[2]}
    return f


def probe_gate(native):
    """builds at capacity boundaries for every mode x level option x forced-version option against the ISO capacity oracle"""
    ch = {0: 0x37, 1: 0x41, 2: 0x61}
    for m in range(3):
        for e in (None, 0, 1, 2, 3):
            level = 2 if e is None else e
            caps = {}
            for v in (1, 2, 3, 6, 8, 10, 27, 40):
                n = 0
                while iso.fits(v, iso.LEVELS[level], iso.MODES[m], n + 1):
                    n += 1 if n < 64 else 64
                while not iso.fits(v, iso.LEVELS[level], iso.MODES[m], n):
                    n -= 1
                caps[v] = n
            capL = caps[40]
            n_l = capL
            while iso.fits(40, 'L', iso.MODES[m], n_l + 1):
                n_l += 1
            lengths = sorted({0, 1, caps[1], caps[1] + 1, caps[2] + 1, caps[3] + 1, caps[6] + 1, caps[8] + 1, caps[10] + 1, caps[27] + 1, capL, capL + 1, n_l, n_l + 1})
            for n in lengths:
                for forced in (None, 1, 2, 3, 6, 8, 40):
                    for mo in (None, m):
                        data = bytes([ch[m]]) * n
                        o2s = lambda x: '-' if x is None else str(x)
                        req = 'build %s %s %s %s -' % (OV.hexs(data), o2s(e), o2s(None if forced is None else forced - 1), o2s(mo))
                        ans = native.ask(req)
                        em = m if (mo is not None or n > 0) else 0          # the empty input is numeric in automatic mode
                        auto = iso.min_version(iso.LEVELS[level], iso.MODES[em], n)
                        if auto is None:
                            want = 'ERR EncodedData'
                        elif forced is not None and forced < auto:
                            want = 'ERR SpecifiedVersion'
                        else:
                            want = 'OK version=%d ecl=%d mode=%d' % ((forced or auto) - 1, level, em)
                        if ans.startswith('OK'):
                            fl = OV.parse_fields(ans)
                            got = 'OK version=%s ecl=%s mode=%s' % (fl['version'], fl['ecl'], fl['mode'])
                        else:
                            got = ans[:60]
                        if got != want:
                            return ('build(%d x %r, ecl=%s, version=%s, mode=%s) gives "%s", expected "%s"' % (
                                n, chr(ch[m]), o2s(e), o2s(forced), o2s(mo), got, want), req[:200], want)
    return None


def job_glue(job):
    """placement::create_matrix with the three stages uninterpreted, options symbolic"""
    n_in, = job
    prog = worker_prog()
    res = {'evaluations': 0, 'obligations': 0, 'discharged': 0, 'failures': [], 'nontrivial': [], 'samples': [],
           'validation': {'cases': 0, 'disagreements': 0}, 'vacuity': 0,
           'stubs': ['encode::encode, polynomials::structure, placement::place_on_matrix -> uninterpreted, arguments logged (glue contract)']}
    I = M.Interp(prog)
    log = {}
    inp = [T.var('in%d' % i, 8) for i in range(n_in)]
    buf = I.mk(list(inp))
    ecl = T.var('ecl', 8, below=4)
    mode = T.var('mode', 8, below=3)
    ver = T.var('ver', 8, below=40)
    mask_o, k_some, k_val = sym_option(I, 'mask', 8, 8)
    cell = I.mk([mask_o])
    enc_bytes = [T.var('enc%d' % i, 8) for i in range(16)]

    def stub_encode(I_, args):
        log['encode'] = list(args)
        b = I_.mk(list(enc_bytes), 'buf')
        return I_.mk([T.var('enc_len', 64), I_.mk([b, 16], 'Vec')], 'CompactQR')

    st_bytes = [T.var('st%d' % i, 8) for i in range(5430)]

    def stub_structure(I_, args):
        log['structure'] = list(args)
        return I_.mk(list(st_bytes))

    def stub_place(I_, args):
        cq = args[0].c[args[0].k]
        log['place'] = [cq, args[1], args[2], args[3]]
        mp = args[3]
        # like the real function: report Some(mask) through the &mut and in the QRCode
        chosen = T.var('chosen_mask', 8, below=8)
        I_.write(mp.c, mp.k, I_.mk([1, chosen], 'enum'))
        return I_.mk([(), T.var('placed_size', 64), I_.mk([0], 'enum'), I_.mk([0], 'enum'), I_.mk([1, chosen], 'enum'), I_.mk([0], 'enum')], 'QRCode')

    I.stubs['encode'] = stub_encode
    I.stubs['encode::encode'] = stub_encode
    I.stubs['structure'] = stub_structure
    I.stubs['polynomials::structure'] = stub_structure
    I.stubs['place_on_matrix'] = stub_place
    f = prog.resolve('placement::create_matrix')
    r = I.call_fn(f, [SliceRef(buf, 0, n_in), ecl, mode, ver, Ptr(cell, 0)])
    if r is M.DEAD:
        raise Inconclusive('create_matrix diverges')
    items = []
    for k in ('encode', 'structure', 'place'):
        items.append(('%s is called' % k, 1 if k in log else 0))
    if len(log) == 3:
        e = log['encode']
        items.append(('encode gets the whole input', 1 if (e[0].c is buf and e[0].start == 0 and e[0].len == n_in) else 0))
        items.append(('encode gets the level', T.eq(8, e[1], ecl)))
        items.append(('encode gets the mode', T.eq(8, e[2], mode)))
        items.append(('encode gets the version', T.eq(8, e[3], ver)))
        s_ = log['structure']
        sl = s_[0]
        same = sl.len == 16 and all(x is y for x, y in zip(sl.items(), enc_bytes))
        items.append(('structure gets exactly the data codewords encode produced', 1 if same else 0))
        items.append(('structure gets the level', T.eq(8, s_[1], ecl)))
        items.append(('structure gets the version', T.eq(8, s_[2], ver)))
        cq, pl_ecl, pl_ver, pl_mask = log['place']
        streamv = list(cq[1][0])
        items.append(('place_on_matrix gets the whole structured stream', 1 if len(streamv) == 5430 and all(x is y for x, y in zip(streamv, st_bytes)) else 0))
        # bit length = 8 * total codewords + remainder bits of the version (oracle table by version)
        want_len = T.select_const([8 * iso.total_codewords(v + 1) + iso.remainder_bits(v + 1) for v in range(40)], 64, T.zext(8, 64, ver), 64)
        items.append(('stream bit length == 8*total codewords + remainder bits', T.eq(64, cq[0], want_len)))
        items.append(('place_on_matrix gets the level', T.eq(8, pl_ecl, ecl)))
        items.append(('place_on_matrix gets the version', T.eq(8, pl_ver, ver)))
        items.append(('place_on_matrix gets the caller\'s mask option cell', 1 if (pl_mask.c is cell and pl_mask.k == 0) else 0))
        items.append(('reported mode == Some(mode)', T.land(T.eq(64, r[5][0], 1), T.eq(8, r[5][1], mode))))
        items.append(('reported ecl == Some(level)', T.land(T.eq(64, r[3][0], 1), T.eq(8, r[3][1], ecl))))
        items.append(('reported version == Some(version)', T.land(T.eq(64, r[2][0], 1), T.eq(8, r[2][1], ver))))
        items.append(('reported mask is what place_on_matrix reported', T.land(T.eq(64, r[4][0], 1), T.eq(8, r[4][1], T.var('chosen_mask', 8)))))
        items.append(('size is what place_on_matrix reported', T.eq(64, r[1], T.var('placed_size', 64))))
    pan = [('%s@%s' % (o.kind, o.where), T.implies(T.and_many(list(o.pc)), o.cond)) for o in I.obligations]
    solver = worker_solver(60000, 'z3-new')
    syn, nsolv, fails, unk = discharge(solver, items + pan, eval_search=0, chunk=1)
    res['obligations'] = len(items) + len(pan)
    res['panic_obligations'] = len(pan)
    res['evaluations'] = res['obligations']
    res['discharged'] = res['obligations'] - len(fails) - len(unk)
    res['nontrivial'] = ['glue n=%d #%d' % (n_in, i) for i, (_, c) in enumerate(items)]
    res['samples'] = [{'entry': 'placement::create_matrix', 'free': '%d input bytes, level, mode, version (all 40), mask option' % n_in,
                       'obligations': [lab for lab, _ in items]}]
    if unk and not fails:
        raise Inconclusive('solver unknown: %s' % unk[:2])
    for lab, model in fails[:2]:
        res['failures'].append({'key': 'glue/' + lab.split(' ')[0], 'what': 'create_matrix wiring: %s fails (%s)' % (lab, model),
                                'confirmed': False, 'obligation': lab, 'model': model})
    res['vacuity'] = 1 if solver.check([T.eq(8, ver, 39)])[0] == 'sat' else 0
    q = solver_counts(solver)
    q['syntactic'] = syn
    res['queries'] = q
    res['solver_time_s'] = solver.time_s
    solver.close()
    res.update(interp_stats(I))
    return res


def confirm_glue(chk, f, native):
    """replay a glue (argument wiring / reported fields) counterexample: native builds over a few option combinations,
    each decoded with the integer reference decoder and compared with the reported fields"""
    from checks import c01
    trials = []
    for inp in (b'HELLO WORLD', b'0123456789', b'hello, world', bytes(range(1, 60))):
        for ecl in (None, 0, 3):
            for ver in (None, 6):
                for mask in (None, 5):
                    trials.append((inp, ecl, ver, mask))
    for (inp, ecl, ver, mask) in trials:
        mode = 0 if all(0x30 <= c <= 0x39 for c in inp) else (1 if all(chr(c) in iso.ALNUM for c in inp) else 2)
        l = 2 if ecl is None else ecl
        auto = iso.min_version(iso.LEVELS[l], iso.MODES[mode], len(inp))
        want = max(auto, (ver + 1) if ver is not None else 0)
        o2s = lambda x: '-' if x is None else str(x)
        req = 'build %s %s %s - %s' % (OV.hexs(inp), o2s(ecl), o2s(ver), o2s(mask))
        ans = native.ask(req)
        bad = None
        if ans.startswith('OK'):
            fl = OV.parse_fields(ans)
            if fl.get('mask', '-') == '-':
                bad = 'the returned QR code reports no mask (mask field is None) although a mask was applied'
            elif mask is not None and fl['mask'] != str(mask):
                bad = 'forced mask %d but mask %s reported' % (mask, fl['mask'])
            elif fl.get('ecl') != str(l) or fl.get('mode') != str(mode):
                bad = 'reported level/mode %s/%s, in effect %d/%d' % (fl.get('ecl'), fl.get('mode'), l, mode)
        if bad is None:
            bad = c01.native_decode_mismatch(native, req, list(inp), mode, l, want)
        if bad:
            f['confirmed'] = True
            f['what'] = '%s  [%s]; symbolic cause: %s' % (bad, req, f.get('obligation'))
            f['replay'] = {'request': req}
            return f
    return f


GATE_INPUTS = [b'', b'7', b'0123456789', b'HELLO WORLD', b'hello', b'\x00\xff', b'A' * 40]


def run(chk, fields=False):
    """gate + glue contracts; failures are replayed through the native build() before being reported"""
    native_path = chk.ov.native(chk.features)
    res = run_jobs(job_gate, [(list(b),) for b in GATE_INPUTS], chk.mir_text, chk.ov.dir, {'native': native_path})
    res += run_jobs(job_glue, [(n,) for n in (0, 3)], chk.mir_text, chk.ov.dir, {'native': native_path})
    native = None
    for r in res:
        fs = r.get('failures', [])
        for f in fs:
            if native is None:
                native = chk.native()
            if 'input' in f:
                confirm_gate(chk, f, native)
            if not f.get('confirmed'):
                confirm_glue(chk, f, native)
            f['key'] = '%s/%s' % (chk.pid, f['key'])
        chk.absorb(r)
    if native is not None:
        native.close()
    chk.bounds.append('gate: QRCode::new on %d concrete inputs x symbolic options (presence+value of level, forced version, mode, mask) x arbitrary Version::get result; '
                      'glue: placement::create_matrix with symbolic input bytes, level, mode, version (all 40) and mask option' % len(GATE_INPUTS))
    chk.assumptions.append('gate/glue runs replace Version::get, create_matrix, encode, structure and place_on_matrix by uninterpreted stubs; each of those is decided by its own check (C05, C06, C02, matrix stage)')
