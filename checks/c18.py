"""C18 - embedded-image frame is centred, module-aligned and inside the symbol (DESIGN.md 4/C18).

The real SvgBuilder::image (MIR) is executed with the margin a symbolic usize and, for the override cells, size / gap /
position symbolic f64; the numbers handed to the formatter are kept as FP terms (the decimal text is not modelled) and
the geometric claims are decided by z3 over QF_FP + bit-vectors."""
import sys
import os

sys.path.insert(0, os.path.dirname(os.path.dirname(os.path.abspath(__file__))))
from checks.common import *          # noqa: F401,F403
from checks import svgdrv as S
from engine import fpterms as F
from engine.mirsym import SliceRef, Ptr, L, Guarded, NumPiece, Float

MAXM = 1 << 20


def numbers(items):
    """values of the x / y / width / height attributes of the rect and image elements, in document order:
    an FP term (NumPiece) when symbolic, a float parsed from the literal text when concrete"""
    toks = []        # (kind, value): ('c', char) / ('n', NumPiece)
    for it in items:
        if type(it) is NumPiece:
            toks.append(('n', it))
        elif type(it) is int:
            toks.append(('c', chr(it)))
        elif type(it) is Guarded:
            raise M.Unsupported('conditional text in the image element')
        else:
            toks.append(('c', '?'))
    out = []
    i = 0
    lit = ''
    while i < len(toks):
        k, val = toks[i]
        if k == 'c':
            lit += val
            i += 1
            for attr in (' x="', ' y="', ' width="', ' height="'):
                if lit.endswith(attr):
                    # attribute value: one NumPiece or concrete text up to the closing quote
                    if i < len(toks) and toks[i][0] == 'n':
                        out.append((attr.strip(' ="'), toks[i][1]))
                        i += 1
                    else:
                        j = i
                        txt = ''
                        while j < len(toks) and toks[j] != ('c', '"'):
                            txt += toks[j][1] if toks[j][0] == 'c' else '?'
                            j += 1
                        try:
                            out.append((attr.strip(' ="'), NumPiece('f64', Float(float(txt)))))
                        except ValueError:
                            pass
                        i = j
                    lit = ''
                    break
        else:
            i += 1
    return out


def fval(x):
    return x.v if type(x) is Float else x


def fadd(a, b):
    return fval(F.binop('Add', Float(a), Float(b)))


def fsub(a, b):
    return fval(F.binop('Sub', Float(a), Float(b)))


def fmul(a, b):
    return fval(F.binop('Mul', Float(a), Float(b)))


def fdiv(a, b):
    return fval(F.binop('Div', Float(a), Float(b)))


def job_cell(job):
    v, shape, mode, seed = job[:4]
    order = job[4] if len(job) > 4 else None      # seed of a shuffle of the setter calls
    prog = worker_prog()
    extra = worker_extra()
    res = {'evaluations': 0, 'obligations': 0, 'discharged': 0, 'failures': [], 'nontrivial': [], 'samples': [],
           'validation': {'cases': 0, 'disagreements': 0}, 'vacuity': 0}
    n = iso.size(v + 1)
    I = M.Interp(prog)
    # default cells: all quantities are small (half-)integers -> exact fixed-point model of f64, decided in bit-vectors;
    # override cells: genuine FP terms, claims stated as identities between FP formulas
    F.set_dyadic(mode == 'default')
    cell, bp = S.new_builder(I, prog)
    m = T.var('margin', 64, below=MAXM + 1)
    cfg = {'margin': m, 'image': [ord('a')], 'ishape': shape}
    asm = []
    if mode == 'override':
        size, gap, px, py = F.fvar('size'), F.fvar('gap'), F.fvar('pos_x'), F.fvar('pos_y')
        cfg.update({'isize': Float(size), 'igap': Float(gap), 'ipos': (Float(px), Float(py))})
        for (x_, lo, hi) in ((size, 0.0, 1000.0), (gap, 0.0, 100.0), (px, 0.0, 4096.0), (py, 0.0, 4096.0)):
            asm += [F.cmp('le', lo, x_), F.cmp('le', x_, hi)]
    call_order = S.configure(I, prog, bp, cfg, order)
    out = I.call_fn(prog.resolve('SvgBuilder::image'), [bp, n])
    if out is M.DEAD:
        raise Inconclusive('image() diverges')
    nums = numbers(list(out[0]))
    items = []
    if len(nums) != 8:
        items.append(('rect has x, y, width, height and image has x, y, width, height (8 numbers), got %d' % len(nums), 0))
    else:
        (rx, ry, rw, rh, ix, iy, iw, ih) = [fval(p.val) for _, p in nums]
        prec = [p.kind for _, p in nums]
        if mode == 'default':
            F.set_dyadic(True, clear=False)
        side_t = F.from_int(T.add(64, T.mul(64, m, 2), n), 64, False).v       # (2*margin + n) as f64
        mf = F.from_int(m, 64, False).v
        items.append(('frame is square', 1 if rw is rh or rw == rh else 0))
        items.append(('image is square', 1 if iw is ih or iw == ih else 0))
        if mode == 'default':
            items.append(('frame x == y', F.cmp('eq', rx, ry)))
            items.append(('frame is centred on the symbol: 2*x + side == size + 2*margin', F.cmp('eq', fadd(fadd(rx, rx), rw), side_t)))
            items.append(('frame x lies on a module boundary', F.is_integral(rx)))
            items.append(('frame side is a whole number of modules', F.is_integral(rw)))
            items.append(('frame side < 40% of the symbol side', F.cmp('lt', rw, 0.4 * n)))
            items.append(('frame is clear of the finder patterns', F.cmp('le', fadd(mf, 7.0), rx)))
            items.append(('frame stays inside the symbol', F.cmp('le', fadd(rx, rw), fadd(mf, float(n)))))
            items.append(('image is not larger than the frame', F.cmp('le', iw, rw)))
            items.append(('image side is positive', F.cmp('lt', 0.0, iw)))
            items.append(('image is centred in the frame: 2*(image x - frame x) == frame side - image side', F.cmp('eq', fadd(fsub(ix, rx), fsub(ix, rx)), fsub(rw, iw))))
            items.append(('image is centred in the frame (y)', F.cmp('eq', fadd(fsub(iy, ry), fsub(iy, ry)), fsub(rw, iw))))
            side0 = F.evaluate(rw, {'margin': 0}) if not isinstance(rw, float) else rw
            items.append(('frame side does not depend on the margin (== %s)' % side0, F.cmp('eq', rw, side0) if not isinstance(rw, float) else 1))
            res['frame_side'] = side0
        else:
            # the claims are stated as exact FP identities with the real-arithmetic formulas evaluated in double precision
            # (x = px - side/2 etc.); "centred" therefore holds up to the rounding of those formulas
            items.append(('image has the requested size', F.same(iw, size)))
            full = fadd(size, fmul(gap, 2.0))
            items.append(('frame side == size + 2*gap, or one module less (alignment adjustment)',
                          T.lor(F.same(rw, full), F.same(rw, fsub(full, 1.0)))))
            items.append(('frame x == requested x - side/2', F.same(rx, fsub(px, fdiv(rw, 2.0)))))
            items.append(('frame y == requested y - side/2', F.same(ry, fsub(py, fdiv(rw, 2.0)))))
            items.append(('image x == frame x + (frame side - image side)/2', F.same(ix, fadd(rx, fdiv(fsub(rw, iw), 2.0)))))
            items.append(('image y == frame y + (frame side - image side)/2', F.same(iy, fadd(ry, fdiv(fsub(rw, iw), 2.0)))))
    pan = [('%s@%s: %s' % (o.kind, o.where, o.msg[:40]), T.implies(T.and_many(list(o.pc)), o.cond)) for o in I.obligations]
    # exactness side conditions of the fixed-point model: if one cannot be proved the model does not apply (inconclusive)
    exact = [('fixed-point model exact (#%d)' % i, c) for i, c in enumerate(F.EXACT)]
    F.set_dyadic(False, clear=False)
    solver = worker_solver(120000, 'z3-new', lut_mode='ite', logic='ALL')
    for a_ in asm:
        solver.assume(a_)
    # witness search by evaluating the FP obligations under seed-chosen option values (z3's FP theory rarely finds these
    # models within the budget; a hit is replayed natively like any solver model)
    pre_fail = None
    if mode == 'override':
        import random as _r
        rr = _r.Random(seed * 7 + v)
        for t_ in range(300):
            env = {'margin': rr.choice([0, 1, 2, 3, 4, 7, 16]),
                   'size': rr.choice([float(rr.randrange(0, 40)), rr.randrange(0, 80) / 2.0, rr.uniform(0, 1000)]),
                   'gap': rr.choice([float(rr.randrange(0, 10)), rr.randrange(0, 20) / 2.0, rr.uniform(0, 100)]),
                   'pos_x': rr.choice([float(rr.randrange(0, 60)), rr.uniform(0, 4096)]), 'pos_y': rr.choice([float(rr.randrange(0, 60)), rr.uniform(0, 4096)])}
            for lab_, c_ in items:
                if type(c_) is not int and F.eval_bool(c_, env) == 0:
                    pre_fail = (lab_ + ' [witness found by term evaluation]', env)
                    break
            if pre_fail:
                break
    se, ne_, fe, ue = discharge(solver, exact, eval_search=0, chunk=1)
    if fe or ue:
        raise Inconclusive('an intermediate value leaves the exact fixed-point model of f64 (%s)' % (fe or ue)[:1])
    if pre_fail is not None:
        syn, nsolv, fails, unk = 0, len(items), [pre_fail], []
    else:
        syn, nsolv, fails, unk = discharge(solver, items + pan, eval_search=0, chunk=1)
    res['obligations'] = len(items) + len(pan)
    res['panic_obligations'] = len(pan)
    res['evaluations'] = res['obligations']
    res['discharged'] = res['obligations'] - len(fails) - len(unk)
    name = 'V%02d %s %s%s' % (v + 1, ['Square', 'Circle', 'RoundedSquare'][shape], mode, '' if order is None else ' (setters called as %s)' % ','.join(call_order))
    res['nontrivial'] = ['%s: %s' % (name, lab) for lab, c in items if type(c) is not int]
    res['samples'] = [{'cell': name, 'free': 'margin: usize <= 2^20' + (', size in [0,1000], gap in [0,100], position in [0,4096]^2 (f64)' if mode == 'override' else ''),
                       'obligations': [lab for lab, _ in items], 'sent_to_solver': nsolv}]
    if unk and not fails:
        raise Inconclusive('solver returned unknown (%s): %s' % (name, unk[:2]))
    native = OV.Native(extra['native'])
    for lab, model in fails[:1]:
        model = model or {}
        mv = model.get('margin', 0)
        req = 'svg v=%d mod=%s margin=%d image=61 ishape=%d' % (v, '00' * (n * n), mv, shape)
        if mode == 'override':
            req += ' isize=%r igap=%r ipos=%r,%r' % (model.get('size', 1.0), model.get('gap', 1.0), model.get('pos_x', 1.0), model.get('pos_y', 1.0))
        if order is not None:
            req += ' order=' + ','.join(call_order)
        ans = native.ask(req)
        confirmed, what = False, 'not reproduced: %s' % lab
        if ans.startswith('PANIC') or ans == 'ABORT':
            confirmed, what = True, 'image() panics: %s' % ans[:80]
        else:
            import re
            doc = bytes.fromhex(OV.parse_fields(ans)['svg']).decode()
            mr = re.search(r'<rect x="([^"]*)" y="([^"]*)" width="([^"]*)" height="([^"]*)" fill="[^"]*"[^>]*/><image x="([^"]*)" y="([^"]*)" width="([^"]*)"', doc)
            if mr:
                rx_, ry_, rw_, rh_, ix_, iy_, iw_ = [float(g) for g in mr.groups()]
                problem = None
                if mode == 'default':
                    if abs(rx_ + rw_ / 2 - (n + 2 * mv) / 2) > 1e-9:
                        problem = 'frame not centred'
                    elif rx_ != round(rx_) or rw_ != round(rw_):
                        problem = 'frame not module aligned (x=%s side=%s)' % (rx_, rw_)
                    elif not rw_ < 0.4 * n:
                        problem = 'frame side %s is not below 40%% of %d' % (rw_, n)
                    elif rx_ - mv < 7:
                        problem = 'frame overlaps a finder pattern'
                    elif iw_ > rw_ or iw_ <= 0:
                        problem = 'image side %s vs frame side %s' % (iw_, rw_)
                    elif abs((ix_ - rx_) - (rw_ - iw_) / 2) > 0.006:
                        problem = 'image not centred in the frame'
                else:
                    sz, gp = model.get('size', 1.0), model.get('gap', 1.0)
                    if abs(iw_ - sz) > 0.006:
                        problem = 'image side %s, requested %s' % (iw_, sz)
                    elif not (-1e-6 <= (sz + 2 * gp) - rw_ <= 1 + 1e-6):
                        problem = 'frame side %s for size %s gap %s' % (rw_, sz, gp)
                    elif abs(rx_ + rw_ / 2 - model.get('pos_x', 1.0)) > 1e-6:
                        problem = 'frame centre x %s, requested %s' % (rx_ + rw_ / 2, model.get('pos_x'))
                    elif abs(ry_ + rw_ / 2 - model.get('pos_y', 1.0)) > 1e-6:
                        problem = 'frame centre y %s, requested %s' % (ry_ + rw_ / 2, model.get('pos_y'))
                    elif abs((ix_ - rx_) - (rw_ - iw_) / 2) > 0.006 or abs((iy_ - ry_) - (rw_ - iw_) / 2) > 0.006:
                        problem = 'image is not centred in its frame (offsets x %s y %s, expected %s)' % (ix_ - rx_, iy_ - ry_, (rw_ - iw_) / 2)
                if problem:
                    confirmed, what = True, '%s: %s (margin %d; rect x=%s y=%s side=%s, image x=%s side=%s)' % (name, problem, mv, rx_, ry_, rw_, ix_, iw_)
        res['failures'].append({'key': 'C18/geometry', 'what': what, 'confirmed': confirmed, 'obligation': lab, 'replay': {'request': req}})
    res['vacuity'] = 1 if solver.check([T.eq(64, m, 3)])[0] == 'sat' else 0
    # translator validation: concrete margin through native
    import random, re
    rnd = random.Random(seed + v)
    mv = rnd.randrange(0, 17)
    ans = native.ask('svg v=%d mod=%s margin=%d image=61 ishape=%d' % (v, '00' * (n * n), mv, shape))
    doc = bytes.fromhex(OV.parse_fields(ans)['svg']).decode()
    mr = re.search(r'<rect x="([^"]*)" y="([^"]*)" width="([^"]*)" height="([^"]*)" fill="[^"]*"[^>]*/><image x="([^"]*)" y="([^"]*)" width="([^"]*)"', doc)
    if mode == 'default' and mr and len(nums) == 8:
        natv = [float(g) for g in mr.groups()]
        env = {'margin': mv}
        mine = [F.evaluate(fval(p.val), env) for _, p in nums]
        res['validation']['cases'] += 1
        ok = all(abs(a - b) < 0.006 for a, b in zip([mine[0], mine[1], mine[2], mine[3], mine[4], mine[5], mine[6]], natv))
        if not ok:
            res['validation']['disagreements'] += 1
            raise Inconclusive('translator validation failed for image() %s: %s vs %s' % (name, mine, natv))
    native.close()
    q = solver_counts(solver)
    q['syntactic'] = syn
    res['queries'] = q
    res['solver_time_s'] = solver.time_s
    solver.close()
    res.update(interp_stats(I))
    return res


def main(argv):
    chk = Check('C18', argv, features='svg')
    chk.rule = ('per (version, frame shape): one obligation per geometric clause over a symbolic margin (and symbolic size/gap/position for '
                'override cells); non-trivial = involves free variables; distinct by (cell, clause)')
    chk.load()
    jobs = []
    vs = list(range(40))
    for v in vs:
        for shape in range(3):
            jobs.append((v, shape, 'default', chk.seed))
    ov_vs = [0, 6, 39] if chk.tier == 'quick' else [0, 1, 6, 9, 20, 26, 39]
    for v in ov_vs:
        for shape in range(3):
            jobs.append((v, shape, 'override', chk.seed))
    # the same override cells with the setters called in other orders (size/gap/position/margin/image/shape commute)
    for k, v in enumerate(ov_vs[:3]):
        for shape in range(3):
            jobs.append((v, shape, 'override', chk.seed, chk.seed * 13 + 3 * k + shape + 1))
    native_path = chk.ov.native(chk.features)
    results = chk.jobs(job_cell, jobs, extra={'native': native_path})
    # side never shrinks as the version grows (concrete sides per version and shape)
    sides = {}
    for j, r in zip(jobs, results):
        if j[2] == 'default' and r.get('frame_side') is not None:
            sides[(j[1], j[0])] = r['frame_side']
    mono_ok = True
    for shape in range(3):
        for v in range(1, 40):
            a, b = sides.get((shape, v - 1)), sides.get((shape, v))
            chk.cov['evaluations'] += 1
            chk.cov['obligations'] += 1
            if a is None or b is None:
                chk.inconclusive.append('frame side of V%02d shape %d is not a constant' % (v + 1, shape))
            elif b < a:
                mono_ok = False
                chk.failure({'key': 'C18/monotone', 'confirmed': True, 'what': 'frame side shrinks from %s (V%02d) to %s (V%02d)' % (a, v, b, v + 1),
                             'replay': {'request': 'svg v=%d ... image=61 ishape=%d' % (v, shape)}})
            else:
                chk.cov['discharged'] += 1
    chk.cov['frame_sides_square'] = [sides.get((0, v)) for v in range(40)]
    chk.bounds += ['default placement: all 40 versions x 3 frame shapes, margin symbolic in 0..2^20',
                   'overrides: versions %s x 3 shapes, size in [0,1000], gap in [0,100], position in [0,4096]^2 as symbolic f64, margin symbolic' % [v + 1 for v in ov_vs]]
    chk.outside += ['the decimal text produced by Display for f64 / {:.2} (only the value handed to the formatter is modelled)',
                    'override values outside the stated ranges, NaN and infinities', 'centring under overrides is checked up to 1e-6 (floating-point rounding of x - b/2 + b/2)']
    chk.assumptions += ['IEEE-754 double semantics of z3 FP theory (RNE) match rustc codegen for + - * /, `%` only compared with 0, f64::round = roundToIntegral RNA']
    chk.finish()


if __name__ == '__main__':
    main(sys.argv[1:])
