"""C02 - error-correction blocks are valid RS codewords with the ISO block layout (DESIGN.md 4/C02)."""
import random
import sys
import os

sys.path.insert(0, os.path.dirname(os.path.dirname(os.path.abspath(__file__))))
from checks.common import *          # noqa: F401,F403
from checks import xcheck
from engine.mirsym import SliceRef, Ptr, L


class DivStub:
    """uninterpreted polynomials::division: fresh [u8; 255] per call, arguments logged"""

    def __init__(self):
        self.calls = []

    def __call__(self, I, args):
        k = len(self.calls)
        blk = list(args[0].items())
        gen = list(args[1].items())
        self.calls.append((blk, gen))
        return I.mk([T.var('r%d_%d' % (k, i), 8) for i in range(255)])


def run_structure(prog, data, l, v, stub=None):
    I = M.Interp(prog)
    if stub is not None:
        I.stubs['division'] = stub
        I.stubs['polynomials::division'] = stub
    buf = I.mk(list(data))
    r = I.call_fn(prog.resolve('structure'), [SliceRef(buf, 0, len(data)), l, v])
    return I, r


def confirm_structure(native, v, l, data):
    level = iso.LEVELS[l]
    total = iso.total_codewords(v + 1)
    ans = native.ask('structure %s %d %d' % (OV.hexs(data), l, v))
    if ans.startswith('PANIC') or ans == 'ABORT':
        return True, 'structure panics for V%02d-%s: %s' % (v + 1, level, ans[:80])
    nat = list(bytes.fromhex(ans))
    ref = iso.interleave(v + 1, level, data)
    if nat[:total] != ref or any(nat[total:]):
        idx = next((i for i in range(total) if nat[i] != ref[i]), total)
        return True, 'interleaved codeword stream of V%02d-%s differs from the ISO block layout at codeword %d (got %s, expected %s); data %s...' % (
            v + 1, level, idx, bytes(nat[idx:idx + 4]).hex(), bytes(ref[idx:idx + 4]).hex(), bytes(data[:8]).hex())
    return False, ''


def confirm_tables(values, native):
    """kani counterexample (version index, level index) of the block-layout tables -> native structure run on that cell"""
    v, l = values[0] % 40, values[1] % 4
    rc_ = random.Random(v * 4 + l)
    try:
        dc = iso.data_codewords(v + 1, iso.LEVELS[l])
    except Exception:
        return False, 'bad cell', {}
    for _ in range(3):
        data = [rc_.randrange(1, 256) for _ in range(dc)]
        ok, what = confirm_structure(native, v, l, data)
        if ok:
            return True, what, {'request': 'structure %s %d %d' % (OV.hexs(data), l, v)}
    # the tables can also be wrong in a way structure() does not expose (e.g. max_bytes): look at a whole build
    return False, 'kani counterexample (V%02d-%s) of the layout tables not reproduced through structure()' % (v + 1, iso.LEVELS[l]), {}


def job_layout(job):
    v, l, mode, seed = job
    prog = worker_prog()
    extra = worker_extra()
    level = iso.LEVELS[l]
    res = {'evaluations': 0, 'obligations': 0, 'discharged': 0, 'failures': [], 'nontrivial': [], 'samples': [],
           'validation': {'cases': 0, 'disagreements': 0}, 'vacuity': 0, 'stubs': []}
    ec, lens = iso.block_layout(v + 1, level)
    dc = sum(lens)
    total = iso.total_codewords(v + 1)
    nb = len(lens)
    xs = [T.var('d%d' % i, 8) for i in range(dc)]
    if mode == 'layout':
        stub = DivStub()
        res['stubs'] = ['polynomials::division -> fresh [u8; 255] per call, arguments logged (layout part)']
        I, r = run_structure(prog, xs, l, v, stub)
        if r is M.DEAD:
            raise Inconclusive('structure diverges')
        out = list(r)
        items = [('number of division calls == number of ISO blocks', 1 if len(stub.calls) == nb else 0)]
        k = 0
        blocks = []
        for b, L_ in enumerate(lens):
            blocks.append(xs[k:k + L_])
            k += L_
        for b, (blk, gen) in enumerate(stub.calls[:nb]):
            same = len(blk) == len(blocks[b]) and all(x is y for x, y in zip(blk, blocks[b]))
            items.append(('division call %d receives ISO block %d (%d bytes)' % (b, b, lens[b]), 1 if same else 0))
            items.append(('division call %d uses a generator of degree %d' % (b, ec), 1 if len(gen) == ec + 1 else 0))
        # data interleave
        pos = 0
        for i in range(max(lens)):
            for b in range(nb):
                if i < lens[b]:
                    items.append(('stream[%d] == block %d byte %d' % (pos, b, i), T.eq(8, out[pos], blocks[b][i])))
                    pos += 1
        # ec interleave: the crate reads division[256 - gen.len() + j]
        for j in range(ec):
            for b in range(nb):
                want = T.var('r%d_%d' % (b, 256 - (ec + 1) + j), 8)
                items.append(('stream[%d] == ec byte %d of block %d' % (pos, j, b), T.eq(8, out[pos], want)))
                pos += 1
        tail = 1
        for i in range(pos, len(out)):
            if not (type(out[i]) is int and out[i] == 0):
                tail = T.land(tail, T.eq(8, out[i], 0))
        items.append(('stream bytes beyond %d (remainder bits and unused buffer) are zero' % total, tail))
        items.append(('total == data + ec*blocks', 1 if pos == total else 0))
        what_free = '%d data codewords, %d stubbed remainders' % (dc, nb)
    else:
        # real division + syndromes with GF(2)-linear tables distributed over xor
        T.set_linear(True)
        I, r = run_structure(prog, xs, l, v)
        if r is M.DEAD:
            raise Inconclusive('structure diverges')
        out = list(r)
        dblocks, eblocks = iso.deinterleave(v + 1, level, out[:total])
        items = []
        for b in range(nb):
            syn = iso.syndromes(dblocks[b] + eblocks[b], ec)
            for i, s_ in enumerate(syn):
                items.append(('syndrome S_%d of block %d' % (i, b), T.eq(8, s_, 0)))
        what_free = '%d data codewords (real division; syndromes normalised with linear table distribution)' % dc
    pan = [('%s@%s' % (o.kind, o.where), T.implies(T.and_many(list(o.pc)), o.cond)) for o in I.obligations]
    solver = worker_solver(60000, 'z3-new')
    asm = []
    if mode == 'layout' and any(type(c_) is not int for _, c_ in items):
        # division is a function: equal blocks (and generators) have equal remainders.  Only needed when an obligation did not
        # fold syntactically (a change that reuses remainders); keeps the solver from answering with identical blocks.
        calls = stub.calls
        for a_ in range(len(calls)):
            for b_ in range(a_ + 1, len(calls)):
                ba, bb = calls[a_][0], calls[b_][0]
                if len(ba) != len(bb) or len(calls[a_][1]) != len(calls[b_][1]):
                    continue
                same_in = T.and_many([T.eq(8, x, y) for x, y in zip(ba, bb)])
                if type(same_in) is int and not same_in:
                    continue
                same_out = T.and_many([T.eq(8, T.var('r%d_%d' % (a_, i), 8), T.var('r%d_%d' % (b_, i), 8)) for i in range(256 - (ec + 1), 255)])
                asm.append(T.implies(same_in, same_out))
    syn_, nsolv, fails, unk = discharge(solver, items + pan, assumptions=asm, eval_search=8)
    res['obligations'] = len(items) + len(pan)
    res['panic_obligations'] = len(pan)
    res['evaluations'] = res['obligations']
    res['discharged'] = res['obligations'] - len(fails) - len(unk)
    res['nontrivial'] = ['V%02d-%s %s #%d' % (v + 1, level, mode, i) for i in range(len(items))]
    res['samples'] = [{'cell': 'V%02d-%s' % (v + 1, level), 'part': mode, 'free': what_free, 'obligations': len(items),
                       'blocks': '%d blocks, data lengths %s, ec %d' % (nb, sorted(set(lens)), ec)}]
    if unk and not fails:
        raise Inconclusive('solver returned unknown: %s' % unk[:2])
    native = OV.Native(extra['native'])
    for lab, model in fails[:1]:
        model = model or {}
        rc_ = random.Random(seed + 5 * v + l)
        # the solver's model first; structural obligations have no model, so also two seed-chosen data vectors
        datas = [[model.get('d%d' % i, 0) for i in range(dc)], [rc_.randrange(256) for _ in range(dc)], [rc_.randrange(1, 256) for _ in range(dc)]]
        confirmed, what, data = False, 'not reproduced: %s' % lab, datas[0]
        for data in datas:
            confirmed, what = confirm_structure(native, v, l, data)
            if confirmed:
                break
        if not confirmed:
            what = 'not reproduced: %s' % lab
        res['failures'].append({'key': 'C02/layout', 'what': what, 'confirmed': confirmed, 'obligation': lab,
                                'replay': {'request': 'structure %s %d %d' % (OV.hexs(data), l, v)}})
    # vacuity witness: swapping two data bytes of the oracle order must be refutable
    if mode == 'layout' and dc >= 2:
        a, _ = solver.check([T.ne(8, out[0], xs[1])])
        if a != 'sat':
            raise Inconclusive('vacuity witness not satisfiable')
        res['vacuity'] = 1
    # translator validation
    rnd = random.Random(seed + v * 4 + l)
    data = [rnd.randrange(256) for _ in range(dc)]
    T.set_linear(False)
    Ic, rc = run_structure(prog, data, l, v)
    nat = list(bytes.fromhex(native.ask('structure %s %d %d' % (OV.hexs(data), l, v))))
    res['validation']['cases'] += 1
    if list(rc) != nat:
        res['validation']['disagreements'] += 1
        raise Inconclusive('translator validation failed for structure V%02d-%s' % (v + 1, level))
    native.close()
    q = solver_counts(solver)
    q['syntactic'] = syn_
    res['queries'] = q
    res['solver_time_s'] = solver.time_s
    solver.close()
    res.update(interp_stats(I))
    T.set_linear(False)
    return res


def main(argv):
    chk = Check('C02', argv, features='svg')
    chk.rule = ('layout: one obligation per codeword of the interleaved stream per (version, level) cell with all data codewords symbolic; '
                'syndromes: one per (block, i<ec); placement: one per data module per version; non-trivial = has free variables')
    chk.load()
    chk.run_kani([{'harness': 'c02_block_layout_tables', 'key': 'C02/tables', 'confirm': confirm_tables,
                   'symbolic': 'version index < 40, level index < 4 (all 160 cells)'}])
    native_path = chk.ov.native(chk.features)
    jobs = [(v, l, 'layout', chk.seed) for v in range(40) for l in range(4)]
    small = [(v, l) for v in range(3) for l in range(4)] if chk.tier == 'quick' else [(v, l) for v in range(6) for l in range(4)]
    jobs += [(v, l, 'syndromes', chk.seed) for (v, l) in small]
    jobs.sort(key=lambda j: -(j[0] + (40 if j[2] == 'syndromes' else 0)))
    chk.jobs(job_layout, jobs, extra={'native': native_path})
    xcheck.run_matrix_jobs(chk, ['C02'])
    chk.bounds += ['layout: all 160 (version, level) cells, every data codeword symbolic, division uninterpreted',
                   'syndromes with the real division: cells %s' % ['V%02d-%s' % (v + 1, iso.LEVELS[l]) for v, l in small]]
    chk.outside += ['the "up to floor(ec/2) corrupted codewords are recoverable" corollary is Reed-Solomon theory about a decoder that is not in this crate',
                    'zero syndromes for cells outside the listed ones follow from C07 (remainder for every shape) and the layout part, not from a direct query']
    chk.finish()


if __name__ == '__main__':
    main(sys.argv[1:])
