"""C03 - matrix stage check (DESIGN.md 4/C03): function patterns, size and untouched tail of the backing array."""
import sys
import os

sys.path.insert(0, os.path.dirname(os.path.dirname(os.path.abspath(__file__))))
from checks.common import *          # noqa: F401,F403
from checks import xcheck


def confirm_alignment(values, native):
    v = values[0]
    ans = native.ask('blank %d' % v)
    f = OV.parse_fields(ans)
    n = iso.size(v + 1)
    raw = bytes.fromhex(f['data']) if 'data' in f else b''
    g = iso.geometry(v + 1)
    replay = {'request': 'blank %d' % v}
    if int(f.get('size', 0)) != n:
        return True, 'version %d has size %s, expected %d' % (v + 1, f.get('size'), n), replay
    for r in range(n):
        for c in range(n):
            if (g['label'][r][c] == iso.ALIGN) != ((raw[r * n + c] & 0xFE) == iso.ALIGN):
                return True, 'version %d: alignment pattern membership of module (%d,%d) differs from ISO Annex E' % (v + 1, r, c), replay
    return False, 'kani counterexample (version %d) not reproduced' % (v + 1), replay


def main(argv):
    chk = Check('C03', argv, features='svg')
    chk.rule = ('one obligation per module of the n x n symbol (plus the tail of the backing array) per version, over a symbolic '
                'stream/level/mask; non-trivial = every module obligation (the cell was produced by code run with stream, level and mask symbolic and '
                'must nevertheless be the ISO constant); '
                'distinct by (version, mode, obligation index)')
    chk.load()
    chk.run_kani([{'harness': 'c03_alignment_grid_and_size', 'key': 'C03/alignment-table', 'confirm': confirm_alignment,
                   'symbolic': 'version index < 40 (all versions)'}])
    xcheck.run_matrix_jobs(chk, ['C03'])
    chk.finish()


if __name__ == '__main__':
    main(sys.argv[1:])
