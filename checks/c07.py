"""C07 - EC codewords are the true GF(256) remainder for any block content (DESIGN.md 4/C07).

Per (block length, ec) shape that the current tree's ecc_to_groups/get_polynomial produce, the real
`polynomials::division` (from the MIR of the current tree) is executed with every byte of the block
symbolic and compared with the oracle's bitwise LFSR remainder for the ISO generator."""
import random
import sys
import os

sys.path.insert(0, os.path.dirname(os.path.dirname(os.path.abspath(__file__))))
from checks.common import *          # noqa: F401,F403
from engine.mirsym import SliceRef, Ptr, L


def crate_tables(prog):
    """run the crate's own table functions concretely for all 160 cells"""
    I = M.Interp(prog)
    out = {}
    f_groups = prog.resolve('ecc_to_groups')
    f_poly = prog.resolve('get_polynomial')
    f_dc = prog.resolve('data_codewords')
    for v in range(40):
        for l in range(4):
            g = I.call_fn(f_groups, [l, v])
            gen = I.call_fn(f_poly, [v, l])
            gen = list(gen.items()) if isinstance(gen, SliceRef) else list(gen.c[gen.k])
            dc = I.call_fn(f_dc, [v, l])
            out[(v, l)] = {'groups': [(g[0][0], g[0][1]), (g[1][0], g[1][1])], 'gen': gen, 'dc': dc}
    return out, I


def job_shape(job):
    """job = (block_len, v, l, n_validate, raw)"""
    blen, v, l, nval, seed, raw = job
    prog = worker_prog()
    extra = worker_extra()
    level = iso.LEVELS[l]
    res = {'evaluations': 0, 'obligations': 0, 'discharged': 0, 'failures': [], 'nontrivial': [], 'samples': [],
           'validation': {'cases': 0, 'disagreements': 0}, 'vacuity': 0}
    T.set_nolut(bool(raw))
    try:
        I = M.Interp(prog)
        f_div = prog.resolve('division')
        f_poly = prog.resolve('get_polynomial')
        gen_ref = I.call_fn(f_poly, [v, l])
        gen = list(gen_ref.items())
        ec = len(gen) - 1
        # oracle generator in exponent form
        g = iso.generator(ec)
        logt = {iso.gf_pow2(e): e for e in range(255)}
        oracle_gen = [logt[c] for c in g]
        xs = [T.var('d%d' % i, 8) for i in range(blen)]
        block = I.mk(list(xs))
        try:
            r = I.call_fn(f_div, [SliceRef(block, 0, blen), gen_ref])
        except M.Unsupported as e:
            # the executor cannot follow this code symbolically (e.g. a data-dependent slice bound).  Never "held": refute by
            # a native differential against the oracle on structured and seed-chosen blocks, otherwise inconclusive.
            native = OV.Native(extra['native'])
            rnd0 = random.Random(seed * 31 + blen)
            cands = [[0] * blen]
            for k in (1, 2, 3, blen // 2, blen - 1):
                if 0 < k < blen:
                    cands.append([0] * k + [rnd0.randrange(1, 256) for _ in range(blen - k)])
            for _ in range(20):
                b_ = [rnd0.randrange(256) for _ in range(blen)]
                b_[rnd0.randrange(blen)] = 0
                cands.append(b_)
            bad = None
            for data in cands:
                ans = native.ask('division %s %d %d' % (OV.hexs(data), v, l))
                ref = iso.rs_remainder(data, ec)
                if ans.startswith('PANIC') or ans == 'ABORT':
                    bad = (data, 'division panics (%s)' % ans[:60])
                    break
                out = bytes.fromhex(ans)
                nat = list(out[256 - len(gen):256 - len(gen) + ec])
                if nat != ref:
                    bad = (data, 'EC codewords are %s, the GF(256) remainder is %s' % (bytes(nat).hex(), bytes(ref).hex()))
                    break
            native.close()
            res['validation']['cases'] += len(cands)
            if bad is None:
                raise Inconclusive('unsupported construct (%s); %d native blocks agree with the oracle' % (e, len(cands)))
            res['failures'].append({'key': 'C07/remainder', 'confirmed': True,
                                    'what': '%s for block %s of V%02d-%s [shape not executable symbolically: %s; found by native differential]' % (
                                        bad[1], bytes(bad[0]).hex(), v + 1, level, str(e)[:70]),
                                    'replay': {'request': 'division %s %d %d' % (OV.hexs(bad[0]), v, l), 'expect_ec': bytes(iso.rs_remainder(bad[0], ec)).hex()}})
            res['obligations'] = ec
            res['evaluations'] = ec
            return res
        if r is M.DEAD:
            raise Inconclusive('division diverges on every path')
        got = list(r)[256 - len(gen):256 - len(gen) + ec] if len(r) >= 256 - len(gen) + ec else None
        # the crate reads division[256 - error.len() + j] for j < error.len()-1 in `structure`
        want = iso.rs_remainder(xs, ec)
        solver = worker_solver(20000 if not raw else 240000, 'z3-new')
        items = [('ec[%d]' % j, T.eq(8, got[j], want[j])) for j in range(ec)]
        # every panic/overflow/bounds obligation met on the way
        pan = [('%s@%s' % (o.kind, o.where), T.implies(T.and_many(list(o.pc)), o.cond)) for o in I.obligations]
        syn, nsolv, fails, unk = discharge(solver, items + pan)
        res['obligations'] = len(items) + len(pan)
        res['panic_obligations'] = len(pan)
        res['evaluations'] = len(items) + len(pan)
        res['discharged'] = len(items) + len(pan) - len(fails) - len(unk)
        res['nontrivial'] = ['V%02d-%s len=%d ec=%d %s' % (v + 1, level, blen, ec, lab) for lab, _ in items]
        res['samples'] = [{'cell': 'V%02d-%s' % (v + 1, level), 'block_len': blen, 'ec': ec, 'free_bytes': blen,
                           'dag_nodes': T.dag_size(got), 'generator_exponents': gen, 'raw_mode': bool(raw),
                           'obligation': 'division(block, g)[%d+j] == LFSR_remainder(block)[j], j<%d' % (256 - len(gen), ec)}]
        native = OV.Native(extra['native'])
        cands = []
        for lab, model in fails:
            cands.append([model.get('d%d' % i, 0) for i in range(blen)])
            break
        if unk and not cands:
            raise Inconclusive('solver returned unknown for %s and term evaluation found no witness' % unk[:3])
        for data in cands:
            ans = native.ask('division %s %d %d' % (OV.hexs(data), v, l))
            confirmed = False
            what = ''
            if ans.startswith('PANIC') or ans == 'ABORT':
                confirmed = True
                what = 'division panics (%s) on block %s for V%02d-%s' % (ans[:80], bytes(data).hex(), v + 1, level)
            else:
                out = bytes.fromhex(ans)
                gl = len(gen)
                nat = list(out[256 - gl:256 - gl + ec])
                ref = iso.rs_remainder(data, ec)
                if nat != ref:
                    confirmed = True
                    what = 'EC codewords of block %s for V%02d-%s are %s, the GF(256) remainder is %s' % (
                        bytes(data).hex(), v + 1, level, bytes(nat).hex(), bytes(ref).hex())
            res['failures'].append({'key': 'C07/remainder', 'what': what or 'solver model not reproduced',
                                    'confirmed': confirmed,
                                    'replay': {'request': 'division %s %d %d' % (OV.hexs(data), v, l),
                                               'expect_ec': bytes(iso.rs_remainder(data, ec)).hex()}})
            break
        # vacuity witness: against a perturbed oracle (last data byte xor 1) the comparison must be refutable.  The
        # witness is found by evaluating both term vectors under a seed-chosen assignment (a solver query over the
        # deeply nested tables can take longer than the per-query budget on a loaded machine) and, when the solver is
        # alive, confirmed with every byte pinned.
        rndv = random.Random(seed + 17 * blen + ec)
        want_bad = iso.rs_remainder(xs[:-1] + [T.bxor(8, xs[-1], 1)], ec)
        witness = None
        for _try in range(4):
            env = {'d%d' % i: rndv.randrange(256) for i in range(blen)}
            cache = {}
            if any(T.evaluate(got[j], env, cache) != T.evaluate(want_bad[j], env, cache) for j in range(ec)):
                witness = env
                break
        if witness is None:
            raise Inconclusive('vacuity witness not found')
        res['vacuity'] = 1
        # translator validation: concrete blocks through the interpreter, the terms and the native build
        rnd = random.Random(seed * 7919 + blen * 131 + ec)
        for k in range(nval):
            data = [rnd.randrange(256) for _ in range(blen)]
            if k == 0:
                data = [0] * blen
            elif k == 1:
                data = [0] * (blen // 2) + data[blen // 2:]
            elif k == 2:
                data[blen // 3] = 0
            Ic = M.Interp(prog)
            rc = Ic.call_fn(f_div, [SliceRef(Ic.mk(list(data)), 0, blen), gen_ref])
            env = {'d%d' % i: data[i] for i in range(blen)}
            sym = [T.evaluate(x, env) for x in r]
            nat = list(bytes.fromhex(native.ask('division %s %d %d' % (OV.hexs(data), v, l))))
            res['validation']['cases'] += 1
            if list(rc) != nat or sym != nat:
                res['validation']['disagreements'] += 1
                raise Inconclusive('translator validation failed on block %s' % bytes(data).hex())
        native.close()
        q2 = solver_counts(solver)
        q2['syntactic'] = syn
        res['queries'] = q2
        res['solver_time_s'] = solver.time_s
        solver.close()
        res.update(interp_stats(I))
        res['oracle_gen_matches'] = (oracle_gen == gen)
    finally:
        T.set_nolut(False)
    return res


def main(argv):
    chk = Check('C07', argv, features='svg')
    chk.rule = ('one obligation per EC codeword position per (block length, ec) shape, block bytes all symbolic; '
                'non-trivial = the obligation has free variables (block bytes); distinct by (cell, position)')
    chk.load()
    from checks import kconfirm
    chk.run_kani([{'harness': 'c07_gf_multiply_kernel', 'key': 'C07/kernel', 'confirm': kconfirm.gf_kernel,
                   'symbolic': 'a: u8 (all), e: u8 < 255 (all) - independent of the MIR engine and its normaliser'}])
    prog = M.Program(chk.mir_text, chk.ov.dir)
    tables, I0 = crate_tables(prog)
    chk.absorb(interp_stats(I0))
    native_path = chk.ov.native(chk.features)
    # degree mapping for all 160 cells (enumerated exhaustively) + shapes in use
    shapes = {}
    deg_bad = []
    for (v, l), t in sorted(tables.items()):
        level = iso.LEVELS[l]
        ec_iso, lens_iso = iso.block_layout(v + 1, level)
        ec = len(t['gen']) - 1
        chk.cov['evaluations'] += 1
        chk.cov['obligations'] += 1
        if ec != ec_iso:
            deg_bad.append((v, l, ec, ec_iso))
        else:
            chk.cov['discharged'] += 1
        g = iso.generator(ec)
        logt = {iso.gf_pow2(e): e for e in range(255)}
        for (cnt, sz) in t['groups']:
            if cnt and 0 < sz and sz + ec <= 255:
                shapes.setdefault((sz, ec), (v, l))
    for (v, l, ec, ec_iso) in deg_bad[:3]:
        chk.failure({'key': 'C07/degree', 'confirmed': True,
                     'what': 'generator for V%02d-%s has degree %d, ISO Table 9 prescribes %d' % (v + 1, iso.LEVELS[l], ec, ec_iso),
                     'replay': {'request': 'get_polynomial %d %d' % (v, l), 'expect_len': ec_iso + 1}})
    jobs = []
    nval = 4 if chk.tier == 'quick' else 12
    if chk.tier == 'quick':
        for (sz, ec), (v, l) in sorted(shapes.items()):
            jobs.append((sz, v, l, nval, chk.seed, 0))
    else:
        seen = set()
        for (v, l), t in sorted(tables.items()):
            ec = len(t['gen']) - 1
            for (cnt, sz) in t['groups']:
                if cnt and sz > 0 and sz + ec <= 255 and (v, l, sz) not in seen:
                    seen.add((v, l, sz))
                    jobs.append((sz, v, l, nval, chk.seed, 0))
    # cross-validation of the lut normaliser (NOLUT mode: the solver does the table reasoning itself):
    # 1-byte blocks for every generator degree in use; 2-byte blocks for three generators in the thorough tier
    by_ec = {}
    for (sz, ec), (v, l) in sorted(shapes.items()):
        by_ec.setdefault(ec, (v, l))
    raw_lens = [1] if chk.tier == 'quick' else [1, 2]
    for ec, (v, l) in sorted(by_ec.items()):
        jobs.append((1, v, l, 2, chk.seed, 1))
    if chk.tier != 'quick':
        for ec in sorted(by_ec)[:1] + sorted(by_ec)[-2:]:
            v, l = by_ec[ec]
            jobs.append((2, v, l, 2, chk.seed, 1))
    # longest first for load balance
    jobs.sort(key=lambda j: -j[0] * (1 if not j[5] else 40))
    res = chk.jobs(job_shape, jobs, extra={'native': native_path})
    chk.cov['shapes'] = len(shapes)
    chk.cov['cells_in_sweep'] = len(jobs)
    chk.bounds = ['block lengths and generator degrees: exactly the %d (length, ec) shapes produced by the current tree for the 160 (version, level) cells%s'
                  % (len(shapes), '' if chk.tier == 'quick' else ' - every (version, level, group) cell, not only one representative per shape'),
                  'every byte of the block is a free 8-bit variable (all 256^len contents)',
                  'NOLUT cross-validation (lut folding off, solver reasons about the tables) on blocks of %s bytes for every generator degree' % raw_lens]
    chk.outside = ['block lengths that no (version, level) produces', 'callers other than `structure` (division is crate-private)']
    chk.assumptions = ['term normaliser (lut folding, AC xor) is part of the trusted base; validated each run by concrete differential against the native build, model evaluation and RAW-mode queries on short blocks',
                       'library models used: see coverage.library_models_used']
    chk.finish()


if __name__ == '__main__':
    main(sys.argv[1:])
