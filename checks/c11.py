"""C11 - automatic mask minimises the documented penalty over all eight masks (DESIGN.md 4/C11)."""
import random
import sys
import os

sys.path.insert(0, os.path.dirname(os.path.dirname(os.path.abspath(__file__))))
from checks.common import *          # noqa: F401,F403
from checks import xstage as X
from checks import xcheck
from engine.mirsym import SliceRef, Ptr, L


def blank_labels(prog, v):
    """labels and values of the crate's own blank symbol (default::create_matrix), concrete run"""
    I = M.Interp(prog)
    qr = I.call_fn(prog.resolve('default::create_matrix'), [v])
    n = qr[1]
    raw = [qr[0][i][0] for i in range(n * n)]
    return n, raw


def symbolic_matrix(I, n, raw):
    """QRCode whose module values are all free variables, labels as in `raw`"""
    cells = []
    vals = []
    for i in range(n * n):
        if raw[i] & 0xFE:
            # function pattern / format / version module: keeps the value the blank symbol gives it (these are never
            # written by placement or masking - C03/C15 - so candidates always have them at these values)
            vals.append(raw[i] & 1)
            cells.append(I.mk([raw[i]], 'Module'))
            continue
        x = T.var('m%d' % i, 1)
        vals.append(x)
        cells.append(I.mk([T.zext(1, 8, x)], 'Module'))
    cells += [I.mk([0], 'Module') for _ in range(177 * 177 - n * n)]
    data = I.mk(cells)
    qr = I.mk([data, n, I.mk([0], 'enum'), I.mk([0], 'enum'), I.mk([0], 'enum'), I.mk([0], 'enum')], 'QRCode')
    return qr, vals


def job_score(job):
    kind, v, seed = job[:3]
    fkey = job[3] if len(job) > 3 else 'C11/penalty-terms'
    prog = worker_prog()
    extra = worker_extra()
    res = {'evaluations': 0, 'obligations': 0, 'discharged': 0, 'failures': [], 'nontrivial': [], 'samples': [],
           'validation': {'cases': 0, 'disagreements': 0}, 'vacuity': 0, 'stubs': []}
    n, raw = blank_labels(prog, v)
    labs = [[raw[r * n + c] & 0xFE for c in range(n)] for r in range(n)]
    I = M.Interp(prog)
    qr, vals = symbolic_matrix(I, n, raw)
    V = [[vals[r * n + c] for c in range(n)] for r in range(n)]
    items = []
    cell = I.mk([qr])
    if kind == 'lines':
        f = prog.resolve('line')
        data = qr[0]
        # the run-length term is an equivalence of two different recurrences over the whole line: decided by the solver in
        # seconds up to 29 modules (V3), 40 s at 33, not within 300 s at 41 -> run term only for V1-V3, window term always
        runs_too = n <= 29
        for r in range(n):
            out = I.call_fn(f, [SliceRef(data, r * n, n)])
            p, q = iso.penalty_line_t(V[r], labs[r])
            items.append(('row %d: 1011101 windows' % r, T.eq(32, out[0], p)))
            if runs_too:
                items.append(('row %d: runs of >= 5' % r, T.eq(32, out[1], q)))
        for c in range(n):
            col = I.mk([data[r * n + c] for r in range(n)])
            out = I.call_fn(f, [SliceRef(col, 0, n)])
            p, q = iso.penalty_line_t([V[r][c] for r in range(n)], [labs[r][c] for r in range(n)])
            items.append(('column %d: 1011101 windows' % c, T.eq(32, out[0], p)))
            if runs_too:
                items.append(('column %d: runs of >= 5' % c, T.eq(32, out[1], q)))
    elif kind == 'squares':
        out = I.call_fn(prog.resolve('matrix_score_squares'), [Ptr(cell, 0)])
        conds = iso.squares_conds(V, labs)
        base, steps = peel_chain(out)
        steps = steps[::-1]
        m_, N_ = len(steps), len(conds)
        if m_ > N_ or any(k != 3 for _, k in steps):
            items.append(('2x2 term is a sum of 3 per block over the %d data blocks' % N_, T.eq(32, out, iso.squares_t(V, labs))))
        else:
            # accumulation-chain decomposition: same number of steps, same increments, pointwise equivalent conditions
            pre = 0
            for (r_, c_, e) in conds[:N_ - m_]:
                pre = T.add(32, pre, T.ite(32, e, 3, 0))
            items.append(('2x2 partial sum over the first %d blocks' % (N_ - m_), T.eq(32, base, pre)))
            for k, (cnd, inc) in enumerate(steps):
                r_, c_, e = conds[N_ - m_ + k]
                items.append(('2x2 block at (%d,%d) adds 3 iff its four data modules are equal' % (r_, c_), T.eq(1, cnd, e)))
    elif kind == 'dark':
        out = I.call_fn(prog.resolve('dark_module_score'), [Ptr(cell, 0)])
        items.append(('dark ratio term', T.eq(32, out, iso.dark_t(V))))
    elif kind == 'panics':
        # large symbol: only the panic/overflow obligations of the three scoring functions (the penalty values of large
        # symbols are outside the bound); counters that are too narrow only overflow on the largest symbols
        # (score::line is left out: its overflow obligations on 177-module lines are not decided within the solver cap)
        I.call_fn(prog.resolve('matrix_score_squares'), [Ptr(cell, 0)])
        I.call_fn(prog.resolve('dark_module_score'), [Ptr(cell, 0)])
    elif kind == 'total':
        # glue: score() = dark + squares + sum over i of line(row i) and line(row i of the transpose argument)
        lines = []

        def stub_line(I_, args):
            k = len(lines)
            lines.append(args[0])
            return I_.mk([T.var('patt%d' % k, 32), T.var('runs%d' % k, 32)])
        I.stubs['line'] = stub_line
        I.stubs['dark_module_score'] = lambda I_, args: T.var('darkscore', 32)
        I.stubs['matrix_score_squares'] = lambda I_, args: T.var('squarescore', 32)
        res['stubs'] = ['score::line, dark_module_score, matrix_score_squares uninterpreted (glue of score / matrix_pattern_and_line)']
        tq = I.copy_val(qr)
        tcell = I.mk([tq])
        out = I.call_fn(prog.resolve('score'), [Ptr(cell, 0), Ptr(tcell, 0)])
        ok_args = len(lines) == 2 * n
        for i in range(n if ok_args else 0):
            a_, b_ = lines[2 * i], lines[2 * i + 1]
            ok_args = ok_args and a_.c is qr[0] and a_.start == i * n and a_.len == n and b_.c is tq[0] and b_.start == i * n and b_.len == n
        items.append(('line() is applied to every row of the candidate and every row of the transpose argument', 1 if ok_args else 0))
        ls = cs = ps = 0
        for i in range(n):
            ls = T.add(32, ls, T.var('runs%d' % (2 * i), 32))
            cs = T.add(32, cs, T.var('runs%d' % (2 * i + 1), 32))
            ps = T.add(32, ps, T.add(32, T.var('patt%d' % (2 * i), 32), T.var('patt%d' % (2 * i + 1), 32)))
        tot = T.add(32, T.add(32, T.add(32, T.add(32, ls, ps), cs), T.var('darkscore', 32)), T.var('squarescore', 32))
        items.append(('score == row runs + patterns + column runs + dark term + 2x2 term', T.eq(32, out, tot)))
    pan = [('%s@%s: %s' % (o.kind, o.where, o.msg[:40]), T.implies(T.and_many(list(o.pc)), o.cond)) for o in I.obligations]
    solver = worker_solver(60000, 'z3-new', lut_mode='ite', logic='QF_BV')
    syn, nsolv, fails, unk = discharge(solver, items, eval_search=24, chunk=1)
    if kind == 'panics' and len(I.obligations) == 0:
        items.append(('the scoring functions were executed', 1))
    if kind == 'total':
        pan = []        # overflow of sums of uninterpreted values is not a property of the real scores
    s2, n2, f2, u2 = discharge(solver, pan, eval_search=4, chunk=8)
    syn += s2
    fails += f2
    unk += u2
    res['obligations'] = len(items) + len(pan)
    res['panic_obligations'] = len(pan)
    res['evaluations'] = res['obligations']
    res['discharged'] = res['obligations'] - len(fails) - len(unk)
    res['nontrivial'] = ['V%02d %s #%d' % (v + 1, kind, i) for i, (_, c) in enumerate(items + pan) if type(c) is not int]
    res['samples'] = [{'version': v + 1, 'function': kind, 'free': 'every data module value (%d free bits); function/format modules as in the blank symbol' % sum(1 for x in raw if not x & 0xFE),
                       'obligations': len(items), 'panic_obligations': len(pan), 'example': (items or pan or [('-',)])[min(3, len(items or pan or [0]) - 1)][0]}]
    if unk and not fails:
        raise Inconclusive('solver returned unknown (%s V%02d): %s' % (kind, v + 1, unk[:2]))
    native = OV.Native(extra['native'])
    for lab, model in fails[:1]:
        model = model or {}
        # function/format modules keep the blank symbol's value (they are not variables), data modules come from the model
        mod = [raw[i] if (raw[i] & 0xFE) else (model.get('m%d' % i, 0) & 1) for i in range(n * n)]
        ans = native.ask('score %d %s' % (v, OV.hexs(mod)))
        vv = [[mod[r * n + c] & 1 for c in range(n)] for r in range(n)]
        ref = iso.penalty(vv, labs)
        confirmed = ans.isdigit() and int(ans) != ref
        what = ('score() of a V%02d matrix is %s, its documented penalty is %d (%s)' % (v + 1, ans, ref, lab)) if confirmed else \
            'model for %s not reproduced natively (native %s, reference %d)' % (lab, ans[:20], ref)
        if ans.startswith('PANIC'):
            confirmed, what = True, 'score() panics: %s' % ans[:80]
        res['failures'].append({'key': fkey, 'what': what, 'confirmed': confirmed, 'obligation': lab,
                                'replay': {'request': 'score %d %s' % (v, OV.hexs(mod)), 'expect': ref}})
    # vacuity: a matrix with a penalty different from 0 exists (lines) / the comparison is refutable for a perturbed oracle
    a, _ = solver.check([T.eq(1, [x for x in vals if not isinstance(x, int)][0], 1)])
    res['vacuity'] = 1 if a == 'sat' else 0
    # translator validation: random concrete matrices through native score and the interpreter
    rnd = random.Random(seed + v)
    for t in range(2):
        mod = [raw[i] if (raw[i] & 0xFE) else rnd.randrange(2) for i in range(n * n)]
        ans = native.ask('score %d %s' % (v, OV.hexs(mod)))
        vv = [[mod[r * n + c] & 1 for c in range(n)] for r in range(n)]
        ref = iso.penalty(vv, labs)
        res['validation']['cases'] += 1
        if not ans.isdigit():
            raise Inconclusive('native score failed: %s' % ans[:60])
        if int(ans) != ref:
            # genuine disagreement between the crate's score and the documented penalty on a concrete matrix
            res['failures'].append({'key': 'C11/penalty-terms', 'confirmed': True,
                                    'what': 'score() of a concrete V%02d matrix is %s, its documented penalty is %d' % (v + 1, ans, ref),
                                    'replay': {'request': 'score %d %s' % (v, OV.hexs(mod)), 'expect': ref}})
            break
    native.close()
    q = solver_counts(solver)
    q['syntactic'] = syn
    res['queries'] = q
    res['solver_time_s'] = solver.time_s
    solver.close()
    res.update(interp_stats(I))
    return res


def oracle_candidate(v, stream, m):
    """placed codewords masked with pattern m, format area as the blank symbol leaves it (light)"""
    g = iso.geometry(v + 1)
    n = g['n']
    mat = iso.build_matrix(v + 1, 'L', m, stream)
    fa, fb = iso.format_positions(v + 1)
    for (r, c) in fa + fb:
        mat[r][c] = 0
    return mat, g['label']


def selection_witness(native, v, level, streams):
    """look for a concrete stream whose automatic mask is not a minimiser of the documented penalty"""
    total = iso.total_codewords(v + 1)
    tried = 0
    for stream in streams:
        ans = xcheck.native_place(native, v, stream, level, None)
        f = OV.parse_fields(ans)
        if 'outmask' not in f or f['outmask'] == '-':
            continue
        tried += 1
        ms = int(f['outmask'])
        pens = []
        for m in range(8):
            mat, labs = oracle_candidate(v, stream, m)
            pens.append(iso.penalty(mat, labs))
        if pens[ms] != min(pens):
            return stream, ms, pens, tried
    return None, None, None, tried


def repetitive_witness(native, v0):
    """large symbols filled to capacity with one repeated character: the penalties there reach tens of thousands, where a
    comparison in a narrow integer type goes wrong; -> (version, level, stream, emitted mask, penalties) or None"""
    tried = 0
    for v in sorted({39, 29, max(v0, 21)}, reverse=True):
        for (lv, ch) in ((0, 0x61), (0, 0x21), (0, 0x20)):
            level = iso.LEVELS[lv]
            dc = iso.data_codewords(v + 1, level)
            n = 0
            while iso.fits(v + 1, level, 'byte', n + 1):
                n += 1 if n < 64 else 32
            while not iso.fits(v + 1, level, 'byte', n):
                n -= 1
            data = iso.encode_codewords(v + 1, level, 'byte', [ch] * n)
            stream = iso.interleave(v + 1, level, data[:dc])
            ans = xcheck.native_place(native, v, stream, lv, None)
            f = OV.parse_fields(ans)
            tried += 1
            if 'outmask' not in f or f['outmask'] == '-':
                continue
            ms = int(f['outmask'])
            pens = []
            for m in range(8):
                mat, labs = oracle_candidate(v, stream, m)
                pens.append(iso.penalty(mat, labs))
            if pens[ms] != min(pens):
                return v, lv, stream, ms, pens
    return None


def job_selection(job):
    v, seed = job
    prog = worker_prog()
    extra = worker_extra()
    res = {'evaluations': 0, 'obligations': 0, 'discharged': 0, 'failures': [], 'nontrivial': [], 'samples': [],
           'validation': {'cases': 0, 'disagreements': 0}, 'vacuity': 0,
           'stubs': ['score::score -> fresh 32-bit value per call, both arguments snapshotted (selection-loop contract)']}
    R = X.run_place(prog, v, snapshot=True)
    I = R['I']
    g = iso.geometry(v + 1)
    n = g['n']
    calls = R['stub'].calls
    stream = R['stream']
    total = len(stream)
    order_index = {rc: k for k, rc in enumerate(g['order'])}
    items = [('score is called for exactly 8 candidates', 1 if len(calls) == 8 else 0)]
    col_items = []
    for k, ent in enumerate(calls[:8]):
        qc, tc = ent['qr_cells'], ent['tr_cells']
        ok_c = 1
        ok_t = 1
        for r in range(n):
            for c in range(n):
                cellv = qc[r * n + c]
                if g['label'][r][c] == iso.DATA:
                    kk = order_index[(r, c)]
                    sbit = T.extract_bit(8, stream[kk >> 3], 7 - (kk & 7)) if kk < 8 * total else 0
                    want = T.bxor(1, sbit, 1 if iso.mask_cond(k, r, c) else 0)
                    ok_c = T.land(ok_c, T.eq(1, T.trunc(8, 1, cellv), want))
                # second argument must be the transpose of this very candidate
                if tc is not None:
                    ok_t = T.land(ok_t, T.eq(8, tc[c * n + r], cellv))
        items.append(('candidate %d is the placed codewords masked with pattern %d' % (k, k), ok_c))
        if tc is not None:
            col_items.append(('candidate %d is ranked with the transpose of that same candidate (column terms)' % k, ok_t))
        else:
            res.setdefault('notes', []).append('score() no longer takes the transposed candidate as an argument: the column-source clause is not checked at this interface')
    # emitted mask = first minimiser of the eight scores, forced mask overrides (shared with C04's oracle)
    d, mv = X.applied_mask_term(R)
    items.append(('emitted mask is Some', T.eq(64, d, 1)))
    items.append(('emitted mask == forced mask if any, else first minimum of the eight candidate scores', T.eq(8, mv, X.chosen_mask_oracle(R))))
    solver = worker_solver(120000, 'z3-new', lut_mode='ite', logic='QF_BV')
    syn, nsolv, fails, unk = discharge(solver, items, eval_search=6, chunk=1)
    s2, n2, fails_col, u2 = discharge(solver, col_items, eval_search=6, chunk=1)
    syn += s2
    unk += u2
    res['obligations'] = len(items) + len(col_items)
    res['evaluations'] = res['obligations']
    res['discharged'] = res['obligations'] - len(fails) - len(fails_col) - len(unk)
    res['nontrivial'] = ['V%02d selection #%d' % (v + 1, i) for i in range(len(items) + len(col_items))]
    res['samples'] = [{'version': v + 1, 'function': 'place_on_matrix selection loop', 'free': '%d stream bytes, level, mask option, 8 stub scores' % total,
                       'obligations': [lab for lab, _ in (items + col_items)][:6]}]
    if unk and not (fails or fails_col):
        raise Inconclusive('solver returned unknown: %s' % unk[:2])
    native = OV.Native(extra['native'])
    rnd = random.Random(seed * 13 + v)
    if fails_col:
        lab, model = fails_col[0]
        model = model or {}
        streams = [[model.get('s%d' % i, 0) for i in range(total)]]
        # the symbolic failure is structural; a concrete payload on which it changes the selected mask can be rare
        # (a few percent): search more streams on small versions where a native build + 8 reference penalties is cheap
        ntry = 600 if v <= 2 else (150 if v <= 6 else 25)
        streams += [[rnd.randrange(256) for _ in range(total)] for _ in range(ntry)]
        level = model.get('lvl', 0) % 4
        st, ms, pens, tried = selection_witness(native, v, level, streams)
        if st is not None:
            res['failures'].append({'key': 'C11/selection.column-source', 'confirmed': True, 'obligation': lab,
                                    'what': ('automatic mask is not penalty-minimal: for V%02d stream %s... the emitted mask %d has documented penalty %d but mask %d has %d; '
                                             'cause: %s does not hold (the column terms are computed from a matrix that is not the candidate\'s transpose)'
                                             % (v + 1, bytes(st[:10]).hex(), ms, pens[ms], pens.index(min(pens)), min(pens), lab)),
                                    'replay': {'entry': 'place', 'version': v, 'level': level, 'mask': None, 'stream': bytes(st).hex(),
                                               'penalties': pens, 'emitted': ms}})
        else:
            res['failures'].append({'key': 'C11/selection.column-source', 'confirmed': False, 'obligation': lab,
                                    'what': '%s fails symbolically but %d native builds all picked a penalty-minimal mask' % (lab, tried)})
    for lab, model in fails[:1]:
        model = model or {}
        st = [model.get('s%d' % i, 0) for i in range(total)]
        level = model.get('lvl', 0) % 4
        forced = model.get('mask_val', 0) % 8 if model.get('mask_some', 0) else None
        mism, req = xcheck.confirm_native(native, v, st, level, forced)
        ntry2 = 400 if v <= 2 else (100 if v <= 6 else 20)
        w, ms, pens, tried = selection_witness(native, v, level, [st] + [[rnd.randrange(256) for _ in range(total)] for _ in range(ntry2)])
        confirmed = bool(mism) or w is not None
        what = lab + ' fails'
        if not confirmed and v == max(j_[0] for j_ in [job]) and job[0] >= 4:
            # scores of random streams stay in the low thousands; try large symbols with repetitive payloads once (from the
            # job of the seed-chosen large version only: each try costs 8 reference penalties on a 177x177 matrix)
            rw = repetitive_witness(native, v)
            if rw is not None:
                v_, lv_, st_, ms, pens = rw
                confirmed = True
                what = ('automatic mask %d has documented penalty %d, mask %d has %d (V%02d level %s, payload of one repeated character at capacity); %s'
                        % (ms, pens[ms], pens.index(min(pens)), min(pens), v_ + 1, iso.LEVELS[lv_], lab))
                res['failures'].append({'key': 'C11/selection', 'confirmed': True, 'obligation': lab, 'what': what,
                                        'replay': {'entry': 'place', 'version': v_, 'level': lv_, 'mask': None, 'stream': bytes(st_).hex()}})
                continue
        if w is not None:
            what = 'automatic mask %d has documented penalty %d, mask %d has %d (V%02d stream %s...); %s' % (ms, pens[ms], pens.index(min(pens)), min(pens), v + 1, bytes(w[:10]).hex(), lab)
        elif mism:
            what = '%s; %s' % (lab, mism[0][1])
        res['failures'].append({'key': 'C11/selection', 'confirmed': confirmed, 'obligation': lab, 'what': what,
                                'replay': {'entry': 'place', 'version': v, 'level': level, 'mask': forced, 'stream': bytes(st).hex()}})
    a, _ = solver.check([T.ne(8, mv, 0)])
    res['vacuity'] = 1 if a == 'sat' else 0
    if v <= 1 and not any(f_.get('confirmed') for f_ in res['failures']):
        # validation of the composition argument (scoring functions proved on free modules + selection proved with the score
        # uninterpreted => the emitted mask minimises the documented penalty): native builds of seed-chosen streams on the two
        # smallest versions against the reference penalties of all eight candidates.  Sampling; it validates the stubbing,
        # it does not decide the property.
        rv = random.Random(seed * 3 + v)
        st_, ms_, pens_, tried_ = selection_witness(native, v, rv.randrange(4), [[rv.randrange(256) for _ in range(total)] for _ in range(400 if v == 0 else 150)])
        res['validation']['cases'] += tried_
        if st_ is not None:
            res['validation']['disagreements'] += 1
            res['failures'].append({'key': 'C11/selection.composition', 'confirmed': True, 'obligation': 'native validation of the stage composition',
                                    'what': ('automatic mask is not penalty-minimal: for V%02d stream %s... the emitted mask %d has documented penalty %d but mask %d has %d '
                                             '(every symbolic obligation of this job held: the defect is in what the uninterpreted score hides, e.g. a changed contract between score and the selection loop)'
                                             % (v + 1, bytes(st_[:10]).hex(), ms_, pens_[ms_], pens_.index(min(pens_)), min(pens_))),
                                    'replay': {'entry': 'place', 'version': v, 'mask': None, 'stream': bytes(st_).hex(), 'penalties': pens_, 'emitted': ms_}})
    native.close()
    q = solver_counts(solver)
    q['syntactic'] = syn
    res['queries'] = q
    res['solver_time_s'] = solver.time_s
    solver.close()
    res.update(interp_stats(I))
    return res


def main(argv):
    chk = Check('C11', argv, features='svg')
    chk.rule = ('scoring: one obligation per row/column term, 2x2 term and dark-ratio term per version with every module value symbolic; '
                'selection: per version, candidate identity (8), column-source (8), argmin (2) over symbolic stream/level/mask/scores; '
                'non-trivial = has free variables; distinct by (version, function, index)')
    chk.load()
    jobs = []
    score_vs = [0, 1] if chk.tier == 'quick' else [0, 1, 2, 3, 4, 5]
    for v in score_vs:
        for kind in ('lines', 'squares', 'dark'):
            jobs.append((kind, v, chk.seed))
    jobs.append(('total', 0, chk.seed))
    jobs.append(('panics', 39, chk.seed))
    jobs.sort(key=lambda j: -j[1])
    native_path = chk.ov.native(chk.features)
    chk.jobs(job_score, jobs, extra={'native': native_path})
    sel_vs = sorted(set([0, 1, 2, 3] + [chk.rng.randrange(4, 40)])) if chk.tier == 'quick' else list(range(40))
    chk.jobs(job_selection, [(v, chk.seed) for v in sel_vs], extra={'native': native_path})
    chk.cov['scoring_versions'] = [v + 1 for v in score_vs]
    chk.cov['selection_versions'] = [v + 1 for v in sel_vs]
    chk.bounds += ['scoring functions (line per row and per column, matrix_score_squares, dark_module_score, score total on V1): versions %s, every module value symbolic, labels of the real blank symbol' % [v + 1 for v in score_vs],
                   'selection loop with score uninterpreted: versions %s, stream/level/mask option/scores symbolic' % [v + 1 for v in sel_vs]]
    chk.bounds.append('panic/overflow obligations of matrix_score_squares and dark_module_score on V40 with every data module symbolic (counters too narrow for the largest symbol)')
    chk.outside += ['the run-length term of score::line on lines longer than 29 modules (versions > 3): the equivalence query is beyond the solver (40 s at 33 modules, > 300 s at 41); the routine has no length-dependent code, but that is an argument, not a verdict',
                    'scoring functions on versions > 6',
                    'the un-stubbed end-to-end argmin (real scores of all eight candidates in one query) is beyond the solver; it is the conjunction of the two parts above']
    chk.assumptions += ['documented penalty = the property statement: 40 per 1011101 window and N-2 per run of N>=5 equal modules inside the encoding region along rows and columns of the candidate, 3 per 2x2 block, 10 per 5% step from 50% (floor of the percentage)',
                        'candidate = placed codewords masked with pattern i, format area still blank (as ranked by the crate)']
    chk.finish()


if __name__ == '__main__':
    main(sys.argv[1:])
