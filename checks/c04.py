"""C04 - format/version information and reported parameters (DESIGN.md 4/C04)."""
import sys
import os

sys.path.insert(0, os.path.dirname(os.path.dirname(os.path.abspath(__file__))))
from checks.common import *          # noqa: F401,F403
from checks import xcheck


def confirm_format(values, native):
    l, m = values[0], values[1]
    # read the crate's table through a build: place an all-zero stream with forced mask and read the format bits
    v = 0
    total = iso.total_codewords(1)
    mism, req = xcheck.confirm_native(native, v, [0] * total, l, m)
    mine = [d for k, d in mism if k == 'format']
    replay = {'entry': 'place', 'version': 0, 'level': l, 'mask': m, 'stream': '00' * total}
    if mine:
        return True, 'format information for level %s mask %d: %s' % (iso.LEVELS[l], m, mine[0]), replay
    return False, 'kani counterexample (level %d, mask %d) not reproduced' % (l, m), replay


def confirm_version(values, native):
    v = values[0]
    total = iso.total_codewords(v + 1)
    mism, req = xcheck.confirm_native(native, v, [0] * total, 0, 0)
    mine = [d for k, d in mism if k == 'version']
    replay = {'entry': 'place', 'version': v, 'level': 0, 'mask': 0, 'stream': '00' * total}
    if mine:
        return True, 'version information of version %d: %s' % (v + 1, mine[0]), replay
    return False, 'kani counterexample (version %d) not reproduced' % (v + 1), replay


def main(argv):
    chk = Check('C04', argv, features='svg')
    chk.rule = ('matrix stage: one obligation per format/version module and reported field per version over symbolic stream/level/mask; '
                'Kani: every CBMC property of the two table harnesses; non-trivial = depends on the free variables')
    chk.load()
    chk.run_kani([
        {'harness': 'c04_format_information_table', 'key': 'C04/format-table', 'confirm': confirm_format,
         'symbolic': 'level index < 4, mask index < 8 (all 32 pairs)'},
        {'harness': 'c04_version_information_table', 'key': 'C04/version-table', 'confirm': confirm_version,
         'symbolic': 'version index in 6..39 (all 34)'},
    ])
    xcheck.run_matrix_jobs(chk, ['C04'])
    try:
        from checks import gate
        gate.run(chk, fields=True)
    except ImportError:
        chk.outside.append('ecl/version/mode fields and the default level Q are set in placement::create_matrix / QRCode::new (glue run not built in this snapshot)')
    chk.finish()


if __name__ == '__main__':
    main(sys.argv[1:])
