"""C16 - terminal rendering encodes the matrix faithfully with a one-module border (DESIGN.md 4/C16)."""
import random
import sys
import os

sys.path.insert(0, os.path.dirname(os.path.dirname(os.path.abspath(__file__))))
from checks.common import *          # noqa: F401,F403
from engine.mirsym import SliceRef, Ptr, L, Guarded

SPACE, UPPER, LOWER, FULL = 0x20, 0x2580, 0x2584, 0x2588


def expected_char(t, b):
    """(top, bottom) dark flags -> code point: space = both dark, full block = both light"""
    if type(t) is int and type(b) is int:
        return {(1, 1): SPACE, (1, 0): LOWER, (0, 1): UPPER, (0, 0): FULL}[(t, b)]
    return T.ite(32, t, T.ite(32, b, SPACE, LOWER), T.ite(32, b, UPPER, FULL))


def job_size(job):
    v, seed = job[:2]
    labelmode = job[2] if len(job) > 2 else 'iso'
    prog = worker_prog()
    extra = worker_extra()
    res = {'evaluations': 0, 'obligations': 0, 'discharged': 0, 'failures': [], 'nontrivial': [], 'samples': [],
           'validation': {'cases': 0, 'disagreements': 0}, 'vacuity': 0}
    n = iso.size(v + 1)
    rnd = random.Random(seed * 101 + v)
    I = M.Interp(prog)
    vals = [T.var('m%d' % i, 1) for i in range(n * n)]
    # type bits: the labels every built symbol of this version has (so rows that agree in type and value, e.g. through the
    # finder patterns, exist), or arbitrary ones (rendering must depend on the value bit only)
    if labelmode == 'iso':
        g_ = iso.geometry(v + 1)
        types = [g_['label'][i // n][i % n] for i in range(n * n)]
    else:
        types = [rnd.choice([0, 2, 4, 6, 8, 10, 12, 14]) for _ in range(n * n)]
    cells = [I.mk([T.bor(8, types[i], T.zext(1, 8, vals[i]))], 'Module') for i in range(n * n)]
    cells += [I.mk([0], 'Module') for _ in range(177 * 177 - n * n)]
    qr = I.mk([I.mk(cells), n, I.mk([0], 'enum'), I.mk([0], 'enum'), I.mk([0], 'enum'), I.mk([0], 'enum')], 'QRCode')
    before = [c[0] for c in cells[:n * n]]
    cell = I.mk([qr])
    s = I.call_fn(prog.resolve('QRCode::to_str'), [Ptr(cell, 0)])
    if s is M.DEAD:
        raise Inconclusive('to_str diverges')
    got = list(s[0])
    # expected text
    V = [[vals[r * n + c] for c in range(n)] for r in range(n)]
    OUT = [1] * (n + 2)
    B = [0] * (n + 2)
    rows = [[0] + V[r] + [0] for r in range(n)]
    pairs = [(OUT, B)]
    for r in range(0, n - 1, 2):
        pairs.append((rows[r], rows[r + 1]))
    pairs.append((rows[n - 1], B))
    want = []
    for k, (top, bot) in enumerate(pairs):
        if k:
            want.append(0x0A)
        for c in range(n + 2):
            want.append(expected_char(top[c], bot[c]))
    items = [('line count == (size+1)/2+1', 1 if len(pairs) == (n + 1) // 2 + 1 else 0),
             ('text length == lines*(size+2) + newlines', 1 if len(got) == len(want) else 0)]
    if any(type(x) is Guarded for x in got):
        items.append(('no character is conditional on module values', 0))
    else:
        for i, (a, b) in enumerate(zip(got, want)):
            if type(a) not in (int, T.Term):
                items.append(('char %d is a plain character' % i, 0))
                continue
            items.append(('char %d (line %d, column %d)' % (i, i // (n + 3), i % (n + 3)), T.eq(32, a, b)))
    # rendering does not modify the QR code
    same = all(c[0] is b for c, b in zip(cells[:n * n], before))
    items.append(('the QRCode is not modified by rendering', 1 if same else 0))
    pan = [('%s@%s: %s' % (o.kind, o.where, o.msg[:40]), T.implies(T.and_many(list(o.pc)), o.cond)) for o in I.obligations]
    solver = worker_solver(60000, 'z3-new', lut_mode='ite', logic='QF_BV')
    syn, nsolv, fails, unk = discharge(solver, items + pan, eval_search=8, chunk=64)
    res['obligations'] = len(items) + len(pan)
    res['panic_obligations'] = len(pan)
    res['evaluations'] = res['obligations']
    res['discharged'] = res['obligations'] - len(fails) - len(unk)
    res['nontrivial'] = ['V%02d %s char %d' % (v + 1, labelmode, i) for i, x in enumerate(want) if type(x) is not int]
    res['samples'] = [{'size': n, 'free': '%d module values, type bits %s' % (n * n, 'as in every built symbol of this version' if labelmode == 'iso' else 'random concrete'), 'text_chars': len(got),
                       'obligations': len(items), 'sent_to_solver': nsolv}]
    if unk and not fails:
        raise Inconclusive('solver returned unknown: %s' % unk[:2])
    native = OV.Native(extra['native'])
    for lab, model in fails[:1]:
        model = model or {}
        mod = [types[i] | (model.get('m%d' % i, 0) & 1) for i in range(n * n)]
        ans = native.ask('to_str %d %s' % (v, OV.hexs(mod)))
        confirmed, what = False, 'not reproduced: ' + lab
        if ans.startswith('PANIC') or ans == 'ABORT':
            confirmed, what = True, 'to_str panics: %s' % ans[:80]
        else:
            text = bytes.fromhex(ans).decode('utf-8', 'replace')
            env = {'m%d' % i: mod[i] & 1 for i in range(n * n)}
            exp = ''.join(chr(x if type(x) is int else T.evaluate(x, env)) for x in want)
            if text != exp:
                confirmed = True
                k = next((i for i in range(min(len(text), len(exp))) if text[i] != exp[i]), min(len(text), len(exp)))
                what = 'to_str of a %dx%d matrix differs from the faithful rendering at character %d (line %d, column %d): got %r, expected %r; lengths %d/%d' % (
                    n, n, k, k // (n + 3), k % (n + 3), text[k:k + 1], exp[k:k + 1], len(text), len(exp))
        res['failures'].append({'key': 'C16/rendering', 'what': what, 'confirmed': confirmed, 'obligation': lab,
                                'replay': {'request': 'to_str %d %s' % (v, OV.hexs(mod))}})
    a, _ = solver.check([T.eq(1, vals[0], 1)])
    res['vacuity'] = 1 if a == 'sat' else 0
    # translator validation
    mod = [types[i] | rnd.randrange(2) for i in range(n * n)]
    ans = native.ask('to_str %d %s' % (v, OV.hexs(mod)))
    text = bytes.fromhex(ans).decode('utf-8')
    env = {'m%d' % i: mod[i] & 1 for i in range(n * n)}
    cache = {}
    mine = ''.join(chr(x if type(x) is int else T.evaluate(x, env, cache)) for x in got)
    res['validation']['cases'] += 1
    if mine != text:
        res['validation']['disagreements'] += 1
        raise Inconclusive('translator validation failed for to_str V%02d' % (v + 1))
    native.close()
    q = solver_counts(solver)
    q['syntactic'] = syn
    res['queries'] = q
    res['solver_time_s'] = solver.time_s
    solver.close()
    res.update(interp_stats(I))
    return res


def _to_str_panics(job, exc, extra):
    """to_str reached a panic on every path for this size: replay a matrix of that size natively"""
    v, seed = job[:2]
    n = iso.size(v + 1)
    rnd = random.Random(seed + v)
    native = OV.Native(extra['native'])
    mod = [rnd.randrange(2) for _ in range(n * n)]
    req = 'to_str %d %s' % (v, OV.hexs(mod))
    ans = native.ask(req)
    native.close()
    if ans.startswith('PANIC') or ans == 'ABORT':
        return {'failures': [{'key': 'C16/rendering', 'confirmed': True, 'replay': {'request': req[:200]},
                              'what': 'to_str panics for every %dx%d matrix: %s (executor: %s)' % (n, n, ans[:100], str(exc)[:80])}],
                'obligations': 1, 'evaluations': 1, 'discharged': 0}
    return None


job_size.on_concrete_panic = _to_str_panics


def main(argv):
    chk = Check('C16', argv, features='svg')
    chk.rule = ('one obligation per character of the rendered text per size with every module value symbolic; non-trivial = the expected '
                'character depends on module values; distinct by (size, character index)')
    chk.load()
    vs = list(range(40))      # all 40 sizes are cheap enough for both tiers
    native_path = chk.ov.native(chk.features)
    chk.jobs(job_size, [(v, chk.seed, 'iso') for v in sorted(vs, reverse=True)] + [(v, chk.seed, 'random') for v in (0, 1, 6, 39)],
             extra={'native': native_path})
    chk.cov['sizes'] = [iso.size(v + 1) for v in vs]
    chk.bounds += ['sizes %s (thorough: all 40), every module value symbolic, type bits as in every built symbol of that version (plus V1, V2, V7, V40 with arbitrary type bits)' % [iso.size(v + 1) for v in vs]]
    chk.outside += ['QRCode::print (writes the same string to stdout)', 'sizes other than 17+4v (QRCode values are only produced by the builder)']
    chk.assumptions += ['String model: a sequence of code points; String::push / push_str / format! models trusted and validated against the native output']
    chk.finish()


if __name__ == '__main__':
    main(sys.argv[1:])
