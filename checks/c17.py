"""C17 - WASM entry points equal the native API and never trap (DESIGN.md 4/C17).

src/wasm.rs is compiled on the host through the scratch overlay (`pub mod wasm_host`).  Decided symbolically:
 * colour setters (module_color / background_color / image_background_color): for every ASCII string of length 0..10
   (characters symbolic) no panic obligation fails and the stored vector has 4 elements or the option is unchanged;
 * image_position / image_size / the other setters: total for every argument shape;
 * qr_svg: for every option state reachable from the setters (image_size in {[], [s,g]}, image_position in {[], [x,y]},
   image empty or not) no panic obligation fails, and the builder handed to to_str is configured with exactly the option
   values (term for term), with QRCode::new / SvgBuilder::to_str uninterpreted;
 * qr: size*size bytes equal to the value bits of the QR code QRCode::new returns with default options, [] on Err."""
import random
import sys
import os

sys.path.insert(0, os.path.dirname(os.path.dirname(os.path.abspath(__file__))))
from checks.common import *          # noqa: F401,F403
from engine import fpterms as F
from engine.mirsym import SliceRef, Ptr, L, Guarded, Float

SETTERS = ['module_color', 'background_color', 'image_background_color']
FIELD = {'module_color': 1, 'background_color': 5, 'image_background_color': 7}
NOT_HASH = [c for c in range(128) if c != ord('#')]
NOT_HASH_256 = [c for c in range(256) if c != ord('#')]


def new_options(I, prog):
    return I.call_fn(prog.resolve('SvgOptions::new'), [])


def sym_string(I, n, has_hash, u8=False):
    """ASCII string of n characters; first is '#' (has_hash) or anything but '#'.
    u8: n arbitrary bytes instead (the caller assumes utf8_valid of them): any Rust String of that byte length"""
    items = []
    if u8:
        for i in range(n):
            if i == 0 and has_hash:
                items.append(ord('#'))
            elif i == 0:
                # any byte but '#': a surjective table over a free index, so that starts_with('#') folds
                items.append(T.zext(8, 32, T.lut([NOT_HASH_256[k % 255] for k in range(256)], T.var('ch0', 8, below=255), 8)))
            else:
                items.append(T.zext(8, 32, T.var('ch%d' % i, 8)))
        return I.lib.new_string(items), items
    for i in range(n):
        x = T.var('ch%d' % i, 8, below=128)
        if i == 0 and has_hash:
            items.append(ord('#'))
        elif i == 0:
            xx = T.var('ch0', 8, below=127)
            items.append(T.zext(8, 32, T.lut([NOT_HASH[k % 127] for k in range(256)], xx, 8)))
        else:
            items.append(T.zext(8, 32, x))
    return I.lib.new_string(items), items


def job_color(job):
    which, n, has_hash, seed = job[:4]
    u8 = len(job) > 4 and job[4]
    prog = worker_prog()
    extra = worker_extra()
    res = {'evaluations': 0, 'obligations': 0, 'discharged': 0, 'failures': [], 'nontrivial': [], 'samples': [],
           'validation': {'cases': 0, 'disagreements': 0}, 'vacuity': 0}
    I = M.Interp(prog)
    opts = new_options(I, prog)
    before = list(opts[FIELD[SETTERS[which]]][0])
    s, items = sym_string(I, n, has_hash, u8)
    asm = []
    if u8:
        asm.append(I.lib.utf8_valid(items))

    r = I.call_fn(prog.resolve('SvgOptions::' + SETTERS[which]), [opts, s])
    obl = []
    name = '%s(%d %s%s)' % (SETTERS[which], n, 'bytes of any well-formed UTF-8 string' if u8 else 'chars', ', leading #' if has_hash else '')
    if r is M.DEAD:
        obl.append(('%s returns' % name, 0))
    else:
        v = r[FIELD[SETTERS[which]]]
        from checks import svgdrv as S
        flat = S.flatten(list(v[0]))            # (guard, component) pairs: the vector may depend on whether the string parses
        cnt = 0
        for g, x in flat:
            cnt = T.add(64, cnt, T.zext(1, 64, g) if type(g) is not int else g)
        obl.append(('stored colour has exactly 4 components for every string', T.eq(64, cnt, 4)))
    pan = [('%s@%s: %s' % (o.kind, o.where, o.msg[:50]), T.implies(T.and_many(list(o.pc)), o.cond)) for o in I.obligations]
    solver = worker_solver(60000, 'z3-new', lut_mode='ite', logic='QF_BV')
    for a_ in asm:
        solver.assume(a_)
    syn, nsolv, fails, unk = discharge(solver, obl + pan, eval_search=0, chunk=1)
    res['obligations'] = len(obl) + len(pan)
    res['panic_obligations'] = len(pan)
    res['evaluations'] = res['obligations']
    res['discharged'] = res['obligations'] - len(fails) - len(unk)
    res['nontrivial'] = ['%s #%d' % (name, i) for i in range(len(obl) + len(pan))]
    res['samples'] = [{'call': name, 'free': '%d %s' % (n - (1 if has_hash else 0), 'bytes (assumed: well-formed UTF-8)' if u8 else 'ASCII characters'), 'panic_obligations': len(pan)}]
    if unk and not fails:
        raise Inconclusive('solver unknown: %s' % unk[:2])
    native = OV.Native(extra['native'])
    for lab, model in fails[:1]:
        model = model or {}
        chars = []
        for i in range(n):
            if i == 0 and has_hash:
                chars.append(ord('#'))
            elif u8 and i == 0:
                chars.append(NOT_HASH_256[model.get('ch0', 0) % 255])
            elif u8:
                chars.append(model.get('ch%d' % i, 0) & 0xFF)
            elif i == 0:
                chars.append(NOT_HASH[model.get('ch0', 0) % 127])
            else:
                chars.append(model.get('ch%d' % i, 0) % 128)
        txt = bytes(chars)
        if u8:
            try:
                txt.decode('utf-8')
            except UnicodeDecodeError:
                res['failures'].append({'key': 'C17/color.parse-unwrap', 'confirmed': False, 'obligation': lab,
                                        'what': 'solver model %r is not well-formed UTF-8 (assumption not honoured)' % txt})
                continue
        ans = native.ask('wasm_color %d %s' % (which, OV.hexs(txt)))
        confirmed = ans.startswith('PANIC') or ans == 'ABORT'
        what = ('SvgOptions::%s(%r) panics: %s' % (SETTERS[which], txt.decode('latin1'), ans[:90])) if confirmed else 'model %r does not panic natively (%s)' % (txt, lab)
        key = 'C17/color.parse-unwrap'
        if not confirmed:
            # the setter returned: does it hold a colour that is not 4 components (which the export later cannot convert)?
            import re as _re
            fld = ['module_color', 'background_color', 'image_background_color'][which]
            mm = _re.search(r'\b%s: \[([^\]]*)\]' % fld, ans)
            comps = [x for x in mm.group(1).split(',') if x.strip()] if mm else None
            if comps is not None and len(comps) != 4:
                arg = {0: 'fg', 1: 'bg', 2: 'ibg'}[which]
                a2 = native.ask('wasm_svg %s margin=4 %s=%s' % (OV.hexs(b'test'), arg, OV.hexs(txt)))
                confirmed = True
                key = 'C17/color.components'
                what = 'SvgOptions::%s(%r) stores %d components%s' % (SETTERS[which], txt.decode('latin1'), len(comps),
                                                                      ('; qr_svg with these options then panics: %s' % a2[:80]) if a2.startswith('PANIC') else '')
        res['failures'].append({'key': key, 'confirmed': confirmed, 'obligation': lab, 'what': what,
                                'replay': {'request': 'wasm_color %d %s' % (which, OV.hexs(txt))}})
    res['vacuity'] = 1
    # translator validation: a well-formed colour through the native setter
    rnd = random.Random(seed + n)
    if u8 and r is not M.DEAD and n >= 2:
        # a concrete non-ASCII string through both: stored vector must agree
        txt = ('#' if has_hash else '') + rnd.choice(['\u00e9', '\u20ac', 'f\u00e9', '\u00e9f']) * 4
        txt = txt.encode('utf-8')[:n]
        try:
            txt.decode('utf-8')
            okt = len(txt) == n
        except UnicodeDecodeError:
            okt = False
        if okt:
            ans = native.ask('wasm_color %d %s' % (which, OV.hexs(txt)))
            env = {'ch%d' % i: txt[i] for i in range(n)}
            if not has_hash:
                env['ch0'] = NOT_HASH_256.index(txt[0])
            from checks import svgdrv as S
            mine = []
            for g, x in S.flatten(list(r[FIELD[SETTERS[which]]][0])):
                if (g if type(g) is int else T.evaluate(g, env)):
                    mine.append(x if type(x) is int else T.evaluate(x, env))
            res['validation']['cases'] += 1
            fld = ['module_color', 'background_color', 'image_background_color'][which]
            if ('%s: %s' % (fld, mine)) not in ans:
                res['validation']['disagreements'] += 1
                raise Inconclusive('translator validation failed for %s(%r): %s / %s' % (SETTERS[which], txt, mine, ans[:200]))
    if n in (7, 9) and has_hash and r is not M.DEAD and not u8:
        txt = b'#' + bytes(rnd.choice(b'0123456789abcdefABCDEF') for _ in range(n - 1))
        ans = native.ask('wasm_color %d %s' % (which, OV.hexs(txt)))
        want = [int(txt[1 + 2 * i:3 + 2 * i], 16) for i in range((n - 1) // 2)] + ([255] if n == 7 else [])
        env = {'ch%d' % i: txt[i] for i in range(1, n)}
        from checks import svgdrv as S
        mine = []
        for g, x in S.flatten(list(r[FIELD[SETTERS[which]]][0])):
            if (g if type(g) is int else T.evaluate(g, env)):
                mine.append(x if type(x) is int else T.evaluate(x, env))
        res['validation']['cases'] += 1
        fld = ['module_color', 'background_color', 'image_background_color'][which]
        if mine != want or ('%s: %s' % (fld, want)) not in ans:
            res['validation']['disagreements'] += 1
            raise Inconclusive('translator validation failed for %s(%r): %s vs %s / %s' % (SETTERS[which], txt, mine, want, ans[:200]))
    native.close()
    q = solver_counts(solver)
    q['syntactic'] = syn
    res['queries'] = q
    res['solver_time_s'] = solver.time_s
    solver.close()
    res.update(interp_stats(I))
    return res


def length_witnesses(cond, model, native, probe):
    """content lengths worth replaying for a failed obligation over `content_len`: the model's value and the neighbours of
    every constant in the obligation (a limit shows as a comparison against a constant); probe(n) -> True if the export
    misbehaves natively for a content of n digits"""
    cands = []
    seen = set()
    stack = [cond]
    while stack:
        x = stack.pop()
        if isinstance(x, int):
            if 0 < x < (1 << 16):
                cands += [x + 1, x, x - 1]
            continue
        if x.id in seen:
            continue
        seen.add(x.id)
        if x.op == 'const':
            stack.append(x.val)
        else:
            stack.extend(x.args)
    cands = [(model or {}).get('content_len', 4)] + sorted(set(cands))
    for n in cands:
        if 0 <= n <= 8000 and probe(n):
            return n
    return None


def job_qr_svg(job):
    has_size, has_pos, has_image, seed = job[:4]
    opaque = len(job) > 4 and job[4]
    prog = worker_prog()
    extra = worker_extra()
    res = {'evaluations': 0, 'obligations': 0, 'discharged': 0, 'failures': [], 'nontrivial': [], 'samples': [],
           'validation': {'cases': 0, 'disagreements': 0}, 'vacuity': 0,
           'stubs': ['QRCode::new -> arbitrary Ok(opaque QR code)/Err, arguments logged', 'SvgBuilder::to_str -> uninterpreted String, builder state snapshotted']}
    I = M.Interp(prog)
    log = {}
    opts = new_options(I, prog)
    # option values: symbolic where the setters allow any value
    def colour(nm):
        return I.mk([I.mk([T.var('%s%d' % (nm, i), 8) for i in range(4)], 'buf'), 4], 'Vec')
    I.write(opts, 1, colour('fg'))
    I.write(opts, 5, colour('bg'))
    I.write(opts, 7, colour('ibg'))
    margin = T.var('margin', 64, below=1 << 20)
    I.write(opts, 2, margin)
    shape = I.mk([2], 'enum')                     # a concrete built-in shape (RoundedSquare)
    I.write(opts, 0, shape)
    ecl_some, ecl_v = T.var('ecl_some', 1), T.var('ecl_val', 8, below=4)
    ver_some, ver_v = T.var('ver_some', 1), T.var('ver_val', 8, below=40)
    I.write(opts, 3, I.mk([T.zext(1, 64, ecl_some), ecl_v], 'enum'))
    I.write(opts, 4, I.mk([T.zext(1, 64, ver_some), ver_v], 'enum'))
    ishape = T.var('ishape', 8, below=3)
    I.write(opts, 8, ishape)
    size, gap, px, py = F.fvar('size'), F.fvar('gap'), F.fvar('px'), F.fvar('py')
    if has_size:
        I.write(opts, 9, I.mk([I.mk([Float(size), Float(gap)], 'buf'), 2], 'Vec'))
    if has_pos:
        I.write(opts, 10, I.mk([I.mk([Float(px), Float(py)], 'buf'), 2], 'Vec'))
    img_items = [T.zext(8, 32, T.var('img%d' % i, 8, below=128)) for i in range(3)] if has_image else []
    I.write(opts, 6, I.lib.new_string(img_items))
    content = [T.zext(8, 32, T.var('c%d' % i, 8, below=128)) for i in range(4)]
    cbuf = I.mk(list(content), 'StrBuf')
    carg = SliceRef(cbuf, 0, 4, True)
    if opaque:
        # content of arbitrary length (the length is a free 64-bit value <= 2^24), bytes not modelled: any decision the
        # export takes on the length alone (a limit, an empty-input shortcut) shows up against the build outcome
        clen = T.var('content_len', 64, below=1 << 24)
        carg = M.OpaqueSlice('content', clen, True)
    ok = T.var('build_ok', 1)

    def same_content(a):
        return (a is carg) if opaque else (type(a) is SliceRef and a.c is cbuf and a.start == 0 and a.len == 4)

    def stub_new(I_, args):
        log['new'] = list(args)
        log['new_pc'] = tuple(I_.pc)
        qr = I_.mk(['the qr code'], 'opaque')
        return I_.mk([T.zext(1, 64, T.lnot(ok)), {0: I_.mk([qr]), 1: I_.mk([0])}], 'symenum')

    def stub_to_str(I_, args):
        b = args[0].c[args[0].k]
        log['to_str'] = (tuple(I_.pc), I_.copy_val(b), args[1])
        return I_.lib.new_string([ord('S'), ord('V'), ord('G')])
    I.stubs['QRCode::new'] = stub_new
    I.stubs['SvgBuilder::to_str'] = stub_to_str
    panic_msg = None
    try:
        r = I.call_fn(prog.resolve('qr_svg'), [carg, opts])
    except M.ConcretePanic as e:
        # a panic reached on every path (empty path condition): the entry point traps for this option state
        r = M.DEAD
        panic_msg = str(e)
    name = 'qr_svg(image_size %s, image_position %s, image %s%s)' % ('set' if has_size else 'unset', 'set' if has_pos else 'unset', 'set' if has_image else 'empty',
                                                                   ', content of arbitrary length' if opaque else '')
    obl = []
    if r is M.DEAD:
        obl.append(('%s returns without panicking%s' % (name, (' (%s)' % panic_msg[:80]) if panic_msg else ''), 0))
    else:
        obl.append(('QRCode::new is called with the content bytes, the level and version options and no forced mode/mask',
                    1 if ('new' in log and same_content(log['new'][0]) and log['new'][3][0] == 0 and log['new'][4][0] == 0) else 0))
        if 'new_pc' in log:
            obl.append(('QRCode::new is called for every content (no decision on the content before the build)', T.and_many(list(log['new_pc']))))
        if 'new' in log:
            obl.append(('level option forwarded', T.land(T.eq(64, log['new'][1][0], T.zext(1, 64, ecl_some)), T.implies(ecl_some, T.eq(8, log['new'][1][1], ecl_v)))))
            obl.append(('version option forwarded', T.land(T.eq(64, log['new'][2][0], T.zext(1, 64, ver_some)), T.implies(ver_some, T.eq(8, log['new'][2][1], ver_v)))))
        items_r = list(r[0])
        txt_ok = T.ite(32, ok, ord('S'), 0)
        # result: the rendering when the build succeeded, the empty string otherwise
        from checks import svgdrv as S0
        flat = S0.flatten(items_r)
        obl.append(('returns the rendering iff the content could be encoded, else the empty string',
                    1 if (len(flat) == 3 and all(type(x) is int for _, x in flat)) else 0))
        for g, x in flat:
            obl.append(('result character present iff the build succeeded', T.eq(1, g, ok)))
        if 'to_str' in log:
            pc, b, _ = log['to_str']
            obl.append(('to_str is called only when the build succeeded', T.implies(T.and_many(list(pc)), ok)))
            # builder state == what the native builder configured with the same values holds
            obl.append(('margin forwarded', T.eq(64, b[2], margin)))
            obl.append(('one layer with the selected shape', 1 if (len(b[0][0]) == 1 and len(b[1][0]) == 1) else 0))

            def colour_str(vec_name):
                from checks import c12
                vals = [T.var('%s%d' % (vec_name, i), 8) for i in range(4)]
                return c12.colour_items(vals)
            from checks import svgdrv as S
            for (fld, nm, lab) in ((3, 'bg', 'background colour'), (4, 'fg', 'module colour'), (6, 'ibg', 'image background colour')):
                got = S.flatten(list(b[fld][0][0]))
                want = colour_str(nm)
                okc = len(got) == len(want)
                obl.append(('%s has the #rrggbb[aa] form' % lab, 1 if okc else 0))
                for (g1, c1), (g2, c2) in zip(got, want):
                    obl.append(('%s text' % lab, T.land(T.eq(1, g1, g2), T.implies(g1, T.eq(32, c1, c2)))))
            img = b[5]
            if has_image:
                okimg = img[0] == 1 and len(img[1][0]) == 3 and all(x is y for x, y in zip(img[1][0], img_items))
            else:
                okimg = img[0] == 0
            obl.append(('image forwarded iff non-empty', 1 if okimg else 0))
            obl.append(('image background shape forwarded', T.eq(8, b[7], ishape)))
            sz, gp, ps = b[8], b[9], b[10]
            if has_size:
                obl.append(('image size and gap forwarded', 1 if (sz[0] == 1 and sz[1].v is size and gp[0] == 1 and gp[1].v is gap) else 0))
            else:
                obl.append(('image size and gap left unset', 1 if (sz[0] == 0 and gp[0] == 0) else 0))
            if has_pos:
                obl.append(('image position forwarded', 1 if (ps[0] == 1 and ps[1][0].v is px and ps[1][1].v is py) else 0))
            else:
                obl.append(('image position left unset', 1 if ps[0] == 0 else 0))
        else:
            obl.append(('to_str is reached', 0))
    pan = [('%s@%s: %s' % (o.kind, o.where, o.msg[:50]), T.implies(T.and_many(list(o.pc)), o.cond)) for o in I.obligations]
    solver = worker_solver(60000, 'z3-new', lut_mode='ite', logic='ALL')
    syn, nsolv, fails, unk = discharge(solver, obl + pan, eval_search=0, chunk=1)
    res['obligations'] = len(obl) + len(pan)
    res['panic_obligations'] = len(pan)
    res['evaluations'] = res['obligations']
    res['discharged'] = res['obligations'] - len(fails) - len(unk)
    res['nontrivial'] = ['%s #%d' % (name, i) for i in range(len(obl) + len(pan))]
    res['samples'] = [{'call': name, 'free': 'colour bytes, margin, level/version options, size/gap/position f64, image and content characters, build outcome',
                       'obligations': [lab for lab, _ in obl][:8]}]
    if unk and not fails:
        raise Inconclusive('solver unknown: %s' % unk[:2])
    native = OV.Native(extra['native'])
    for lab, model in fails[:1]:
        # native differential: the wasm export against the native builder configured with the same values, for a few
        # concrete settings of this option state (zero / negative / fractional gaps, positions, margins)
        key = 'C17/qr_svg.colours' if 'colour' in lab else ('C17/qr_svg.position-guard' if (has_size != has_pos) else 'C17/qr_svg')
        confirmed, what, req = False, '%s: %s (not reproduced natively)' % (name, lab), ''
        content = b'test'
        if opaque:
            def probe(nd):
                c_ = b'7' * nd
                built = 'data' in OV.parse_fields(native.ask('build %s - - - -' % OV.hexs(c_)))
                a_ = native.ask('wasm_svg %s margin=4' % OV.hexs(c_))
                return a_.startswith('PANIC') or a_ == 'ABORT' or (built != (a_ not in ('-', '')))
            cond_of = dict(obl + pan)
            nd = length_witnesses(cond_of.get(lab.split(' [witness')[0], 0), model, native, probe)
            if nd is not None:
                res['failures'].append({'key': 'C17/qr_svg.content-length', 'confirmed': True, 'obligation': lab,
                                        'what': '%s: for a content of %d digits the native build %s but the export returns %s (%s)' % (
                                            name, nd, 'succeeds' if 'data' in OV.parse_fields(native.ask('build %s - - - -' % OV.hexs(b'7' * nd))) else 'fails',
                                            'the empty string' if native.ask('wasm_svg %s margin=4' % OV.hexs(b'7' * nd)) in ('-', '') else 'a document', lab),
                                        'replay': {'request': 'wasm_svg %s margin=4' % ('37' * nd)}})
                continue
        base = native.ask('build %s - - - -' % OV.hexs(content))
        fb = OV.parse_fields(base)
        mod = fb['data']
        vq = int(fb['version'])
        for (sz, gp, posv, mg, cols) in ((7.0, 0.0, (12.0, 13.0), 4, None), (5.0, 1.5, (10.0, 10.0), 2, ('11223344', 'aabbcc80', '01020300')),
                                         (6.0, -1.0, (9.5, 11.0), 0, ('fedcba', '00ff0001', 'ffffffff')), (8.0, 2.0, (15.0, 9.0), 7, None)):
            req = 'wasm_svg %s margin=%d' % (OV.hexs(content), mg)
            nreq = 'svg v=%d mod=%s margin=%d layers=0 fg=000000ff bg=ffffffff ibg=ffffffff ishape=0' % (vq, mod, mg)
            if cols is not None:
                # colours given to the export as #rrggbb[aa] strings, to the native builder as the same RGBA bytes
                full = [c if len(c) == 8 else c + 'ff' for c in cols]
                req += ' fg=%s bg=%s ibg=%s' % tuple(OV.hexs(('#' + c).encode()) for c in cols)
                nreq = 'svg v=%d mod=%s margin=%d layers=0 fg=%s bg=%s ibg=%s ishape=0' % (vq, mod, mg, full[0], full[1], full[2])
            if has_size:
                req += ' size=%r,%r' % (sz, gp)
                nreq += ' isize=%r igap=%r' % (sz, gp)
            if has_pos:
                req += ' pos=%r,%r' % posv
                nreq += ' ipos=%r,%r' % posv
            if has_image:
                req += ' image=%s' % OV.hexs(b'x.png')
                nreq += ' image=%s' % OV.hexs(b'x.png')
            ans = native.ask(req)
            if ans.startswith('PANIC') or ans == 'ABORT':
                confirmed, what = True, '%s panics: %s' % (name, ans[:90])
                break
            nat = native.ask(nreq)
            want = OV.parse_fields(nat).get('svg', '')
            if ans != want:
                got_doc = bytes.fromhex(ans).decode('utf-8', 'replace') if ans != '-' else ''
                want_doc = bytes.fromhex(want).decode('utf-8', 'replace')
                kdiff = next((i for i in range(min(len(got_doc), len(want_doc))) if got_doc[i] != want_doc[i]), min(len(got_doc), len(want_doc)))
                confirmed = True
                what = ('%s differs from the native builder with the same settings (size=%s gap=%s position=%s margin=%d): ...%s... vs ...%s...  [%s]'
                        % (name, sz if has_size else None, gp if has_size else None, posv if has_pos else None, mg,
                           got_doc[max(0, kdiff - 30):kdiff + 40], want_doc[max(0, kdiff - 30):kdiff + 40], lab))
                break
        res['failures'].append({'key': key, 'confirmed': confirmed, 'obligation': lab, 'what': what, 'replay': {'request': req}})
    res['vacuity'] = 1 if solver.check([ok])[0] == 'sat' and solver.check([T.lnot(ok)])[0] == 'sat' else 0
    native.close()
    q = solver_counts(solver)
    q['syntactic'] = syn
    res['queries'] = q
    res['solver_time_s'] = solver.time_s
    solver.close()
    res.update(interp_stats(I))
    return res


def job_qr(job):
    v, seed = job[:2]
    opaque = len(job) > 2 and job[2]
    prog = worker_prog()
    extra = worker_extra()
    res = {'evaluations': 0, 'obligations': 0, 'discharged': 0, 'failures': [], 'nontrivial': [], 'samples': [],
           'validation': {'cases': 0, 'disagreements': 0}, 'vacuity': 0,
           'stubs': ['QRCode::new -> arbitrary Ok(QR code with symbolic modules)/Err, arguments logged']}
    I = M.Interp(prog)
    n = iso.size(v + 1)
    log = {}
    ok = T.var('build_ok', 1)
    vals = [T.var('m%d' % i, 1) for i in range(n * n)]
    rnd = random.Random(seed + v)
    types = [rnd.choice([0, 2, 4, 6, 8, 10, 12, 14]) for _ in range(n * n)]

    def stub_new(I_, args):
        log['new'] = list(args)
        log['new_pc'] = tuple(I_.pc)
        cells = [I_.mk([T.bor(8, types[i], T.zext(1, 8, vals[i]))], 'Module') for i in range(n * n)]
        cells += [I_.mk([0], 'Module') for _ in range(177 * 177 - n * n)]
        qr = I_.mk([I_.mk(cells), n, I_.mk([0], 'enum'), I_.mk([0], 'enum'), I_.mk([0], 'enum'), I_.mk([0], 'enum')], 'QRCode')
        return I_.mk([T.zext(1, 64, T.lnot(ok)), {0: I_.mk([qr]), 1: I_.mk([0])}], 'symenum')
    I.stubs['QRCode::new'] = stub_new
    content = [T.zext(8, 32, T.var('c%d' % i, 8, below=128)) for i in range(3)]
    cbuf = I.mk(list(content), 'StrBuf')
    carg = SliceRef(cbuf, 0, 3, True)
    if opaque:
        carg = M.OpaqueSlice('content', T.var('content_len', 64, below=1 << 24), True)
    r = I.call_fn(prog.resolve('qr'), [carg])
    obl = []
    if r is M.DEAD:
        obl.append(('qr returns', 0))
    else:
        a = log.get('new')
        same = a and ((a[0] is carg) if opaque else (type(a[0]) is SliceRef and a[0].c is cbuf and a[0].len == 3))
        obl.append(('QRCode::new(content bytes, None, None, None, None)', 1 if (same and all(a[i][0] == 0 for i in (1, 2, 3, 4))) else 0))
        if 'new_pc' in log:
            obl.append(('QRCode::new is called for every content (no decision on the content before the build)', T.and_many(list(log['new_pc']))))
        buf = r[0] if r.tag == 'Vec' else None
        if buf is None:
            obl.append(('result is a byte vector', 0))
        else:
            items = list(buf)
            # shape: size*size entries when Ok, none when Err
            if len(items) == n * n and all(type(x) is not Guarded for x in items):
                obl.append(('length', 0))      # unconditional content cannot be empty on Err
            from checks import svgdrv as S0
            flat = S0.flatten(items)
            obl.append(('size*size entries', 1 if len(flat) == n * n else 0))
            for i, (g, x) in enumerate(flat[:n * n]):
                obl.append(('entry %d present iff the content could be encoded' % i, T.eq(1, g, ok)))
                obl.append(('entry %d is the value of module (%d,%d) as 0/1' % (i, i // n, i % n), T.implies(ok, T.eq(8, x, T.zext(1, 8, vals[i])))))
    pan = [('%s@%s: %s' % (o.kind, o.where, o.msg[:50]), T.implies(T.and_many(list(o.pc)), o.cond)) for o in I.obligations]
    solver = worker_solver(60000, 'z3-new', lut_mode='ite', logic='QF_BV')
    syn, nsolv, fails, unk = discharge(solver, obl + pan, eval_search=4, chunk=64)
    res['obligations'] = len(obl) + len(pan)
    res['panic_obligations'] = len(pan)
    res['evaluations'] = res['obligations']
    res['discharged'] = res['obligations'] - len(fails) - len(unk)
    res['nontrivial'] = ['qr V%02d #%d' % (v + 1, i) for i in range(len(obl))]
    res['samples'] = [{'call': 'qr(content)', 'free': '%d module values, build outcome' % (n * n), 'obligations': len(obl)}]
    if unk and not fails:
        raise Inconclusive('solver unknown: %s' % unk[:2])
    native = OV.Native(extra['native'])
    for lab, model in fails[:1]:
        txt = b'HELLO'
        if opaque:
            def probe(nd):
                c_ = b'7' * nd
                fb_ = OV.parse_fields(native.ask('build %s - - - -' % OV.hexs(c_)))
                a_ = native.ask('wasm_qr %s' % OV.hexs(c_))
                want_ = bytes(x & 1 for x in bytes.fromhex(fb_['data'])).hex() if 'data' in fb_ else ''
                return a_.startswith('PANIC') or a_ == 'ABORT' or (a_ if a_ != '-' else '') != want_
            nd = length_witnesses(dict(obl + pan).get(lab.split(' [witness')[0], 0), model, native, probe)
            res['failures'].append({'key': 'C17/qr.content-length', 'confirmed': nd is not None, 'obligation': lab,
                                    'what': ('qr(content of %d digits) differs from the value bits of the native default build (%s)' % (nd, lab)) if nd is not None
                                    else 'not reproduced: %s' % lab,
                                    'replay': {'request': 'wasm_qr %s' % ('37' * (nd or 0))}})
            continue
        ans = native.ask('wasm_qr %s' % OV.hexs(txt))
        b = native.ask('build %s - - - -' % OV.hexs(txt))
        f = OV.parse_fields(b)
        want = bytes(x & 1 for x in bytes.fromhex(f['data'])).hex()
        confirmed = ans != want
        res['failures'].append({'key': 'C17/qr', 'confirmed': confirmed, 'obligation': lab,
                                'what': 'qr(%r) differs from the value bits of the native default build (%s)' % (txt, lab) if confirmed else 'not reproduced: %s' % lab,
                                'replay': {'request': 'wasm_qr %s' % OV.hexs(txt)}})
    # translator validation: native qr() vs native build()
    txt = bytes(rnd.choice(b'ABC123xyz ') for _ in range(5))
    ans = native.ask('wasm_qr %s' % OV.hexs(txt))
    b = native.ask('build %s - - - -' % OV.hexs(txt))
    res['validation']['cases'] += 1
    if bytes(x & 1 for x in bytes.fromhex(OV.parse_fields(b)['data'])).hex() != ans:
        res['failures'].append({'key': 'C17/qr', 'confirmed': True, 'what': 'qr(%r) differs from the native default build' % txt,
                                'replay': {'request': 'wasm_qr %s' % OV.hexs(txt)}})
    native.close()
    res['vacuity'] = 1
    q = solver_counts(solver)
    q['syntactic'] = syn
    res['queries'] = q
    res['solver_time_s'] = solver.time_s
    solver.close()
    res.update(interp_stats(I))
    return res


def job_setters(job):
    """image_position for vectors of length 0..3, image_size, margin, shape, ecl, version, image: total, and they store what they are given"""
    prog = worker_prog()
    res = {'evaluations': 0, 'obligations': 0, 'discharged': 0, 'failures': [], 'nontrivial': [], 'samples': [],
           'validation': {'cases': 0, 'disagreements': 0}, 'vacuity': 0}
    I = M.Interp(prog)
    obl = []
    for k in range(4):
        opts = new_options(I, prog)
        vec = I.mk([I.mk([Float(F.fvar('p%d_%d' % (k, i))) for i in range(k)], 'buf'), k], 'Vec')
        r = I.call_fn(prog.resolve('SvgOptions::image_position'), [opts, vec])
        if r is M.DEAD:
            obl.append(('image_position(len %d) returns' % k, 0))
        else:
            ln = len(r[10][0])
            obl.append(('image_position(len %d): stored position has 0 or 2 entries' % k, 1 if ln == (2 if k == 2 else 0) else 0))
    opts = new_options(I, prog)
    r = I.call_fn(prog.resolve('SvgOptions::image_size'), [opts, Float(F.fvar('s')), Float(F.fvar('g'))])
    obl.append(('image_size stores [size, gap]', 1 if (r is not M.DEAD and len(r[9][0]) == 2) else 0))
    opts = new_options(I, prog)
    m = T.var('margin', 64)
    r = I.call_fn(prog.resolve('SvgOptions::margin'), [opts, m])
    obl.append(('margin stores its argument', 1 if (r is not M.DEAD and r[2] is m) else 0))
    pan = [('%s@%s: %s' % (o.kind, o.where, o.msg[:50]), T.implies(T.and_many(list(o.pc)), o.cond)) for o in I.obligations]
    solver = worker_solver(60000, 'z3-new', lut_mode='ite', logic='ALL')
    syn, nsolv, fails, unk = discharge(solver, obl + pan, eval_search=0, chunk=1)
    res['obligations'] = len(obl) + len(pan)
    res['panic_obligations'] = len(pan)
    res['evaluations'] = res['obligations']
    res['discharged'] = res['obligations'] - len(fails) - len(unk)
    res['nontrivial'] = ['setter #%d' % i for i in range(len(obl))]
    res['samples'] = [{'calls': 'image_position(len 0..3), image_size, margin', 'obligations': [lab for lab, _ in obl]}]
    for lab, model in fails[:1]:
        res['failures'].append({'key': 'C17/setters', 'confirmed': False, 'what': lab, 'obligation': lab})
    res['vacuity'] = 1
    q = solver_counts(solver)
    q['syntactic'] = syn
    res['queries'] = q
    res['solver_time_s'] = solver.time_s
    solver.close()
    res.update(interp_stats(I))
    return res


def main(argv):
    chk = Check('C17', argv, features='svg')
    chk.rule = ('one obligation per panic site instance and per contract clause of each wasm entry point / setter call shape; non-trivial = quantified '
                'over symbolic characters, bytes, floats or the build outcome')
    chk.load()
    native_path = chk.ov.native(chk.features)
    maxlen = 10
    jobs = []
    for which in range(3):
        for n in range(0, maxlen + 1):
            for has_hash in (False, True):
                if has_hash and n == 0:
                    continue
                if chk.tier == 'quick' and which > 0 and n not in (0, 3, 7, 9):
                    continue
                jobs.append((which, n, has_hash, chk.seed))
    # arbitrary (non-ASCII) strings: every well-formed UTF-8 string of 0..9 bytes (7 in the quick tier for two of the setters)
    for which in range(3):
        for n in range(0, 10):
            for has_hash in (False, True):
                if has_hash and n == 0:
                    continue
                if chk.tier == 'quick' and which > 0 and n not in (2, 5, 7):
                    continue
                jobs.append((which, n, has_hash, chk.seed, True))
    chk.jobs(job_color, jobs, extra={'native': native_path})
    chk.jobs(job_qr_svg, [(a, b, c, chk.seed) for a in (False, True) for b in (False, True) for c in (False, True)]
             + [(False, False, False, chk.seed, True), (True, True, True, chk.seed, True)], extra={'native': native_path})
    chk.jobs(job_qr, [(v, chk.seed) for v in ([0, 1] if chk.tier == 'quick' else [0, 1, 2, 6, 20])] + [(0, chk.seed, True)], extra={'native': native_path})
    chk.jobs(job_setters, [0], extra={'native': native_path})
    chk.bounds += ['colour strings: every ASCII string of length 0..%d (characters symbolic), with and without leading #; every well-formed UTF-8 string of 0..9 bytes '
                   '(bytes symbolic under the assumption of well-formedness, decided with a byte-level model of String/str: as_bytes, from_utf8, char boundaries)' % maxlen,
                   'qr_svg: 8 option states (image_size, image_position, image each set/unset) x symbolic colours, margin, level/version options, floats, build outcome',
                   'qr_svg and qr additionally with a content of arbitrary length (length a free value <= 2^24, bytes not modelled)',
                   'qr: QRCode::new uninterpreted (arbitrary outcome, arbitrary module values) for sizes 21, 25 (quick)']
    chk.outside += ['colour strings longer than 10 characters / 9 bytes of non-ASCII text',
                    'colour vectors / position vectors of other lengths than the setters can store (the fields are private)',
                    'the wasm-bindgen glue itself and the wasm32 target (the file is compiled for the host)']
    # concrete non-ASCII replay (outside the symbolic claim, reported if it panics)
    native = chk.native()
    ans = native.ask('wasm_color 0 %s' % OV.hexs('#é00000'.encode()))
    chk.cov['non_ascii_colour_replay'] = ans[:100]
    if ans.startswith('PANIC') or ans == 'ABORT':
        chk.failure({'key': 'C17/color.parse-unwrap', 'confirmed': True, 'what': 'SvgOptions::module_color("#é00000") panics: %s' % ans[:90],
                     'replay': {'request': 'wasm_color 0 %s' % OV.hexs('#é00000'.encode())}})
    native.close()
    chk.finish()


if __name__ == '__main__':
    main(sys.argv[1:])
