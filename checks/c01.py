"""C01 - every symbol built decodes back to exactly the input bytes (DESIGN.md 4/C01).

Stage G: the whole QRCode::new pipeline (real encode, structure, division, create_matrix, placement, masking, format info;
score::score uninterpreted) is executed per cell with every payload character symbolic inside its alphabet class and the
mask option symbolic; the ISO reference decoder (format info -> unmask -> read-out -> de-interleave -> segment parse) is
applied to the resulting terms and must give back mode, count and every character."""
import random
import sys
import os

sys.path.insert(0, os.path.dirname(os.path.dirname(os.path.abspath(__file__))))
from checks.common import *          # noqa: F401,F403
from checks import xstage as X
from engine.mirsym import SliceRef, Ptr, L

ALNUM = [ord(c) for c in iso.ALNUM]
NONDIGIT_ALNUM = ALNUM[10:]
NON_ALNUM = [b for b in range(256) if b not in ALNUM]
CLASS_TABLE = {
    'd': [0x30 + i % 10 for i in range(256)],
    'a': [ALNUM[i % 45] for i in range(256)],
    'A': [NONDIGIT_ALNUM[i % 35] for i in range(256)],
    'B': [NON_ALNUM[i % len(NON_ALNUM)] for i in range(256)],
}


def sym_char(i, cls):
    """a character ranging over exactly its class: a surjective table applied to a free byte (so the interpreter can
    evaluate class membership tests without the solver)"""
    x = T.var('x%d' % i, 8)
    if cls == 'b':
        return x
    return T.lut(CLASS_TABLE[cls], x, 8)


def concrete_char(rnd, cls):
    if cls == 'b':
        return rnd.randrange(256)
    return CLASS_TABLE[cls][rnd.randrange(256)]


def opt(I, v):
    return I.mk([0], 'enum') if v is None else I.mk([1, v], 'enum')


def expected(spec, ecl, ver, mode):
    """oracle: (mode index, level index, version (1-based) or error string)"""
    n = len(spec)
    if mode is None:
        if all(c == 'd' for c in spec):
            m = 0
        elif all(c in 'daA' for c in spec):
            m = 1
        else:
            m = 2
    else:
        m = mode
    l = 2 if ecl is None else ecl
    auto = iso.min_version(iso.LEVELS[l], iso.MODES[m], n)
    if auto is None:
        return m, l, 'EncodedData'
    if ver is not None and ver + 1 < auto:
        return m, l, 'SpecifiedVersion'
    return m, l, (ver + 1 if ver is not None else auto)


def run_build(prog, chars, ecl, ver, mode, mask_sym=True, mask=None, stub=True):
    I = M.Interp(prog)
    st = X.ScoreStub()
    if stub:
        I.stubs['score'] = st
    buf = I.mk(list(chars))
    if mask_sym:
        m_some = T.var('mask_some', 1)
        m_val = T.var('mask_val', 8, below=8)
        mask_o = I.mk([T.zext(1, 64, m_some), m_val], 'enum')
    else:
        mask_o = opt(I, mask)
    r = I.call_fn(prog.resolve('QRCode::new'), [SliceRef(buf, 0, len(chars)), opt(I, ecl), opt(I, ver), opt(I, mode), mask_o])
    return I, r, st


def job_cell(job):
    spec, ecl, ver, mode, seed, only_panics = job
    prog = worker_prog()
    extra = worker_extra()
    res = {'evaluations': 0, 'obligations': 0, 'discharged': 0, 'failures': [], 'nontrivial': [], 'samples': [],
           'validation': {'cases': 0, 'disagreements': 0}, 'vacuity': 0,
           'stubs': ['score::score -> fresh 32-bit value per call (uninterpreted)']}
    n = len(spec)
    chars = [sym_char(i, c) for i, c in enumerate(spec)]
    m, l, want = expected(spec, ecl, ver, mode)
    I, r, st = run_build(prog, chars, ecl, ver, mode)
    if r is M.DEAD:
        raise Inconclusive('QRCode::new diverges on every path')
    items = []
    cell_name = 'len=%d classes=%s ecl=%s version=%s mode=%s' % (n, (spec[:12] + ('..' if n > 12 else '')), ecl, ver, mode)
    if r.tag != 'enum' or type(r[0]) is not int:
        raise Inconclusive('build outcome is symbolic for a cell whose outcome should be concrete')
    if isinstance(want, str):
        ok = r[0] == 1 and r[1] == (0 if want == 'EncodedData' else 1)
        items.append(('returns Err(%s)' % want, 1 if ok else 0))
    else:
        v = want
        items.append(('returns Ok', 1 if r[0] == 0 else 0))
        if r[0] == 0:
            qr = r[1]
            level = iso.LEVELS[l]
            g = iso.geometry(v)
            nn = g['n']
            items.append(('size == 17+4*%d' % v, 1 if qr[1] == nn else 0))
            items.append(('reported version', 1 if (qr[2][0] == 1 and qr[2][1] == v - 1) else 0))
            items.append(('reported level (default Q)', 1 if (qr[3][0] == 1 and qr[3][1] == l) else 0))
            items.append(('reported mode', 1 if (qr[5][0] == 1 and qr[5][1] == m) else 0))
            if qr[1] == nn and not only_panics:
                vals = [[T.trunc(8, 1, qr[0][rr * nn + cc][0]) for cc in range(nn)] for rr in range(nn)]
                d = iso.decode_symbol(vals, v)
                items.append(('format information is a valid BCH(15,5) codeword', d['valid']))
                items.append(('both format copies agree', d['copies_agree']))
                items.append(('format level == level in effect', T.eq(8, d['level'], l)))
                items.append(('format mask == reported mask', T.land(T.eq(64, qr[4][0], 1), T.eq(8, d['mask'], qr[4][1]))))
                blocks, ecs = iso.deinterleave(v, level, d['codewords'])
                data_cw = [b for blk in blocks for b in blk]
                ind, count, groups, after, pos = iso.parse_segment(data_cw, v, iso.MODES[m], n)
                items.append(('mode indicator', T.eq(16, ind, iso.MODE_INDICATOR[iso.MODES[m]])))
                items.append(('character count == %d' % n, T.eq(16, count, n)))
                k = 0
                for gi, (kind, val) in enumerate(groups):
                    if kind == 'byte':
                        items.append(('char %d' % k, T.eq(16, val, T.zext(8, 16, chars[k]))))
                        k += 1
                    elif kind in ('d3', 'd2', 'd1'):
                        cnt = int(kind[1])
                        wantv = 0
                        for j in range(cnt):
                            dig = T.zext(8, 16, T.sub(8, chars[k + j], 0x30))
                            wantv = T.add(16, T.mul(16, wantv, 10), dig)
                        items.append(('digits %d..%d' % (k, k + cnt - 1), T.eq(16, val, wantv)))
                        k += cnt
                    else:
                        cnt = int(kind[1])
                        wantv = 0
                        for j in range(cnt):
                            wantv = T.add(16, T.mul(16, wantv, 45), iso.alnum_value_t(chars[k + j]))
                        items.append(('alphanumeric chars %d..%d' % (k, k + cnt - 1), T.eq(16, val, wantv)))
                        k += cnt
                # nothing follows the segment: terminator (as many zero bits as fit, up to 4)
                for j, b in enumerate(after):
                    items.append(('terminator bit %d' % j, T.eq(1, b, 0)))
                for j, b in enumerate(d['remainder']):
                    pass
    pan = [('%s@%s: %s' % (o.kind, o.where, o.msg[:40]), T.implies(T.and_many(list(o.pc)), o.cond)) for o in I.obligations]
    solver = worker_solver(120000, 'z3-new', lut_mode='ite', logic='QF_BV')
    syn, nsolv, fails, unk = discharge(solver, items + pan, eval_search=4, chunk=4)
    res['obligations'] = len(items) + len(pan)
    res['panic_obligations'] = len(pan)
    res['evaluations'] = res['obligations']
    res['discharged'] = res['obligations'] - len(fails) - len(unk)
    res['nontrivial'] = ['%s #%d' % (cell_name, i) for i, (_, c) in enumerate(items + pan) if type(c) is not int]
    res['samples'] = [{'cell': cell_name, 'expected': want, 'free': '%d payload characters (class-constrained), mask option, 8 stub scores' % n,
                       'obligations': len(items), 'panic_obligations': len(pan), 'sent_to_solver': nsolv,
                       'mir_statements_executed': I.steps}]
    if unk and not fails:
        raise Inconclusive('solver returned unknown: %s' % unk[:2])
    native = OV.Native(extra['native'])

    def o2s(x):
        return '-' if x is None else str(x)
    for lab, model in fails[:1]:
        model = model or {}
        data = [T.evaluate(c, {k: model.get(k, 0) for k in T.support(c)}) if not isinstance(c, int) else c for c in chars]
        forced = model.get('mask_val', 0) % 8 if model.get('mask_some', 0) else None
        confirmed, what = False, 'not reproduced: %s' % lab
        req = None
        for mk in ([forced] if forced is not None else [None] + list(range(8))):
            req = 'build %s %s %s %s %s' % (OV.hexs(data), o2s(ecl), o2s(ver), o2s(mode), o2s(mk))
            bad = native_decode_mismatch(native, req, data, m, l, want)
            if bad:
                confirmed, what = True, '%s  [%s]' % (bad, req if len(req) < 200 else req[:200] + '...')
                break
        res['failures'].append({'key': 'C01/roundtrip' if not only_panics else 'C10/panic', 'what': what, 'confirmed': confirmed,
                                'obligation': lab, 'replay': {'request': req}})
    # vacuity: the decoded first character compared with a different character must be refutable
    if not isinstance(want, str) and n and not only_panics and r[0] == 0:
        a, _ = solver.check([T.ne(8, chars[0], 0x41 if spec[0] != 'd' else 0x35)])
        if a != 'sat':
            raise Inconclusive('vacuity witness not satisfiable')
        res['vacuity'] = 1
    # translator validation: one concrete payload through the native build and the symbolic result
    rnd = random.Random(seed + n * 7 + l)
    if not isinstance(want, str) and r[0] == 0:
        data = [concrete_char(rnd, c) for c in spec]
        mk = rnd.randrange(8)
        ans = native.ask('build %s %s %s %s %d' % (OV.hexs(data), o2s(ecl), o2s(ver), o2s(mode), mk))
        res['validation']['cases'] += 1
        okv = ans.startswith('OK')
        if okv:
            f = OV.parse_fields(ans)
            nat = list(bytes.fromhex(f['data']))
            # invert the class tables to find variable values
            env = {}
            for i, (c, cls) in enumerate(zip(data, spec)):
                env['x%d' % i] = c if cls == 'b' else CLASS_TABLE[cls].index(c)
            env.update({'mask_some': 1, 'mask_val': mk})
            for q in range(8):
                env['score%d' % q] = rnd.randrange(1 << 32)
            qr = r[1]
            nn = qr[1]
            cache = {}
            sym = [T.evaluate(qr[0][i][0], env, cache) for i in range(nn * nn)]
            okv = sym == nat
        if not okv:
            res['validation']['disagreements'] += 1
            raise Inconclusive('translator validation failed (%s)' % cell_name)
    native.close()
    q = solver_counts(solver)
    q['syntactic'] = syn
    res['queries'] = q
    res['solver_time_s'] = solver.time_s
    solver.close()
    res.update(interp_stats(I))
    return res


def native_decode_mismatch(native, req, data, m, l, want):
    """run the native build and the integer reference decoder; -> description of the first mismatch or None"""
    ans = native.ask(req)
    if ans.startswith('PANIC') or ans == 'ABORT':
        return 'build panics: %s' % ans[:100]
    if isinstance(want, str):
        return None if ans == 'ERR ' + want else 'build returns "%s", expected Err(%s)' % (ans[:40], want)
    if not ans.startswith('OK'):
        return 'build returns "%s", expected a version %d symbol' % (ans[:40], want)
    f = OV.parse_fields(ans)
    v = want
    if int(f['version']) + 1 != v:
        return 'version %d used, expected %d' % (int(f['version']) + 1, v)
    nn = iso.size(v)
    if int(f['size']) != nn:
        return 'size %s' % f['size']
    raw = bytes.fromhex(f['data'])
    vals = [[raw[r * nn + c] & 1 for c in range(nn)] for r in range(nn)]
    d = iso.decode_symbol(vals, v)
    if not d['valid']:
        return 'format information is not a valid codeword'
    if d['level'] != l:
        return 'format information encodes level %s, level in effect is %s' % (iso.LEVELS[d['level']], iso.LEVELS[l])
    if str(d['mask']) != f['mask']:
        return 'format information encodes mask %d, reported mask is %s' % (d['mask'], f['mask'])
    blocks, ecs = iso.deinterleave(v, iso.LEVELS[l], d['codewords'])
    for b, (blk, e) in enumerate(zip(blocks, ecs)):
        if iso.rs_remainder(blk, len(e)) != e:
            return 'block %d is not a valid Reed-Solomon codeword' % b
    data_cw = [b for blk in blocks for b in blk]
    want_cw = iso.encode_codewords(v, iso.LEVELS[l], iso.MODES[m], data)
    if data_cw != want_cw:
        i = next(i for i in range(len(want_cw)) if data_cw[i] != want_cw[i])
        return 'decoded data codeword %d is %02x, the encoding of the input has %02x' % (i, data_cw[i], want_cw[i])
    return None


def cells_for(tier, rng):
    cells = []

    def add(spec, ecl=None, ver=None, mode=None):
        cells.append((spec, ecl, ver, mode))
    # V1: all levels x mode settings x boundary lengths
    for l in range(4):
        lev = iso.LEVELS[l]
        for (mode, cls) in ((0, 'd'), (1, 'a'), (2, 'b'), (None, 'd'), (None, 'A'), (None, 'B')):
            mname = iso.MODES[mode] if mode is not None else {'d': 'numeric', 'A': 'alphanumeric', 'B': 'byte'}[cls]
            cap = 0
            while iso.fits(1, lev, mname, cap + 1):
                cap += 1
            lens = {0, 1, 2, 3, cap - 2, cap - 1, cap} if tier == 'thorough' or l == 2 else {0, 1, cap - 1, cap}
            for n in sorted(x for x in lens if x >= 0):
                if cls in 'AB' and n == 0:
                    continue
                spec = cls * n
                if cls == 'A' and n > 1:
                    p = rng.randrange(n)
                    spec = 'd' * p + 'A' + 'a' * (n - p - 1)
                if cls == 'B' and n > 1:
                    p = rng.randrange(n)
                    spec = 'a' * p + 'B' + 'b' * (n - p - 1)
                add(spec, None if (l == 2 and rng.random() < 0.5) else l, None, mode)
    # forced versions: larger than needed, and too small
    add('b' * 5, 1, 1, 2)
    add('d' * 9, 0, 2, 0)
    add('b' * 30, 3, 0, 2)         # SpecifiedVersion
    add('b' * 20, None, None, 2)
    # V2..V6 at capacity for one level each; count-width class changes under forced large versions
    for v in range(2, 7 if tier == 'quick' else 11):
        l = rng.randrange(4)
        lev = iso.LEVELS[l]
        for (mode, cls) in ((2, 'b'),) if tier == 'quick' and v > 3 else ((0, 'd'), (1, 'a'), (2, 'b')):
            cap = 0
            while iso.fits(v, lev, iso.MODES[mode], cap + 1):
                cap += 1
            add(cls * cap, l, None, mode)
            if tier == 'thorough':
                add(cls * (cap - 1), l, None, mode)
    if tier == 'thorough':
        for v in (14, 21, 27, 32, 40):
            l = rng.randrange(4)
            cap = 0
            while iso.fits(v, iso.LEVELS[l], 'byte', cap + 1):
                cap += 1
            add('b' * cap, l, None, 2)
        add('d' * 12, 1, 9, 0)       # V10 forced: 12-bit count
        add('a' * 7, 2, 26, 1)       # V27 forced: 13-bit count
    else:
        add('d' * 4, 1, 9, 0)
    # count-width classes end-to-end: the count field of every mode decoded at the first version of each class and its
    # neighbour (forced versions with short payloads; V26/V27 cells cost 20-40 s each and run in parallel)
    for (v, m, cls) in ((8, 0, 'd'), (9, 1, 'a'), (9, 2, 'b'), (25, 0, 'd'), (26, 0, 'd'), (26, 1, 'a'), (25, 1, 'a')):
        add(cls * 5, rng.randrange(4), v, m)
    # beyond capacity
    add('d' * 7090, 0, None, 0)
    add('B' + 'b' * 2953, 0, None, None)
    return cells


def main(argv):
    chk = Check('C01', argv, features='svg')
    chk.rule = ('one obligation per decoded field / character group / terminator bit (plus every panic obligation met) per cell; '
                'cell = (payload length and character classes, level, version, mode options), payload and mask symbolic; '
                'non-trivial = obligation has free variables; distinct by (cell, index)')
    chk.load()
    cells = cells_for(chk.tier, chk.rng)
    jobs = [(spec, ecl, ver, mode, chk.seed, False) for (spec, ecl, ver, mode) in cells]
    jobs.sort(key=lambda j: -len(j[0]) if len(j[0]) < 3000 else 0)
    native_path = chk.ov.native(chk.features)
    chk.jobs(job_cell, jobs, extra={'native': native_path})
    from checks import gate
    gate.run(chk)
    chk.cov['cells'] = len(cells)
    chk.bounds += ['%d end-to-end cells (see DESIGN.md 4/C01): V1 x 4 levels x {3 forced modes, automatic mode in each class} x boundary lengths; V2.. at capacity; '
                   'forced larger/smaller versions; beyond-capacity inputs' % len(cells),
                   'within a cell every payload character ranges over its whole class (digit / 45-set / non-digit 45-set / non-45-set byte / any byte) and the mask option is symbolic']
    chk.outside += ['cells not listed: covered compositionally by the stage contracts (C06 encode, C02 structure, C07 division, C03/C04/C08/C15 matrix stage for all 40 versions, gate+glue wiring for symbolic options)',
                    'the segment is decoded at the known length of the cell (the count field is proved equal to it)']
    chk.assumptions += ['score::score uninterpreted (any mask may win)', 'term normaliser / library models trusted, validated by concrete builds against the native binary']
    chk.finish()


if __name__ == '__main__':
    main(sys.argv[1:])
