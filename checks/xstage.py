"""Matrix stage (DESIGN.md 3, stage X): the real `placement::place_on_matrix` executed once per version
with the whole codeword stream, the level and the mask option symbolic and `score::score` stubbed.
The per-property assertion sets (C02 placement part, C03, C04, C08, C15) are evaluated on the result."""
import random
import sys
import os

sys.path.insert(0, os.path.dirname(os.path.dirname(os.path.abspath(__file__))))
from checks.common import *          # noqa: F401,F403
from engine.mirsym import SliceRef, Ptr, L

QR_MAX = 177 * 177
STREAM_BUF = 5430


def sym_inputs(I, v, concrete=None, mask_some=None):
    """-> (cell holding [CompactQR, Option<Mask>], level value, stream byte values, mask parts)"""
    total = iso.total_codewords(v + 1)
    rem = iso.remainder_bits(v + 1)
    if concrete is None:
        stream = [T.var('s%d' % i, 8) for i in range(total)]
        level = T.var('lvl', 8, below=4)
        m_val = T.var('mask_val', 8, below=8)
        if mask_some is None:
            m_some = T.var('mask_some', 1)
            maskopt = I.mk([T.zext(1, 64, m_some), m_val], 'enum')
        else:
            # case split on "a mask is forced": the option is concrete, its payload stays symbolic
            m_some = 1 if mask_some else 0
            maskopt = I.mk([1, m_val], 'enum') if mask_some else I.mk([0], 'enum')
    else:
        stream = list(concrete['stream'])
        level = concrete['level']
        m_some = 1 if concrete['mask'] is not None else 0
        m_val = concrete['mask'] if concrete['mask'] is not None else 0
        maskopt = I.mk([1, m_val], 'enum') if m_some else I.mk([0], 'enum')
    buf = I.mk(list(stream) + [0] * (STREAM_BUF - total), 'buf')
    vec = I.mk([buf, STREAM_BUF], 'Vec')
    cq = I.mk([total * 8 + rem, vec], 'CompactQR')
    cell = I.mk([cq, maskopt])
    return cell, level, stream, (m_some, m_val)


class ScoreStub:
    """uninterpreted `score::score`: returns a fresh 32-bit value per call and logs its arguments"""

    def __init__(self, snapshot=False):
        self.calls = []
        self.snapshot = snapshot

    def __call__(self, I, args):
        k = len(self.calls)
        qr = args[0].c[args[0].k]
        # the second argument is the transposed candidate in the pinned tree; a changed signature is recorded, not assumed
        tr = args[1].c[args[1].k] if len(args) > 1 and type(args[1]) is Ptr and type(args[1].c[args[1].k]) is L else None
        n = qr[1]
        ent = {'qr': qr, 'tr': tr, 'extra_args': [a for a in args[1:] if type(a) is not Ptr]}
        if self.snapshot:
            ent['qr_cells'] = [qr[0][i][0] for i in range(n * n)]
            ent['tr_cells'] = [tr[0][i][0] for i in range(n * n)] if tr is not None else None
        self.calls.append(ent)
        return T.var('score%d' % k, 32)


def run_place(prog, v, concrete=None, stub_score=True, snapshot=False, mask_some=None):
    I = M.Interp(prog)
    stub = ScoreStub(snapshot)
    if stub_score:
        I.stubs['score'] = stub
    cell, level, stream, (m_some, m_val) = sym_inputs(I, v, concrete, mask_some)
    qr = I.call_fn(prog.resolve('place_on_matrix'), [Ptr(cell, 0), level, v, Ptr(cell, 1)])
    if qr is M.DEAD:
        raise Inconclusive('place_on_matrix diverges on every path')
    return {'I': I, 'qr': qr, 'level': level, 'stream': stream, 'mask_some': m_some, 'mask_val': m_val,
            'out_mask': cell[1], 'stub': stub}


def applied_mask_term(res):
    """the mask the crate reports (Option<Mask> written back through the &mut): (discr, value)"""
    om = res['out_mask']
    return om[0], (om[1] if len(om) > 1 else 0)


def chosen_mask_oracle(res):
    """oracle view of which mask must be applied: the forced one, else the first minimum of the stub scores"""
    calls = res['stub'].calls
    # argmin with "first minimum wins": running minimum starting from the largest 32-bit value
    best = 0xFFFFFFFF
    bm = 0
    for k in range(0, len(calls)):
        s = T.var('score%d' % k, 32)
        lt = T.ult(32, s, best)
        best = T.ite(32, lt, s, best)
        bm = T.ite(8, lt, k, bm)
    ms, mv = res['mask_some'], res['mask_val']
    if type(ms) is int:
        return mv if ms else bm
    return T.ite(8, ms, mv, bm)


def assertions(res, v, props):
    """-> dict prop -> list of (label, cond)"""
    qr = res['qr']
    data = qr[0]
    g = iso.geometry(v + 1)
    n = g['n']
    out = {p: [] for p in props}
    level = res['level']
    stream = res['stream']
    total = len(stream)
    mask_t = chosen_mask_oracle(res)          # 8-bit term / int in 0..7
    # oracle format bits as terms in (level, mask)
    if type(level) is int and type(mask_t) is int:
        fbits = iso.bch_format(iso.LEVELS[level], mask_t)
    else:
        tbl = {}
        for l in range(4):
            for m in range(8):
                tbl[(l, m)] = iso.bch_format(iso.LEVELS[l], m)
        # select by level then mask (both < 256): nested ite over level of luts over mask
        def by_mask(l):
            if type(mask_t) is int:
                return tbl[(l, mask_t)]
            return T.select_const([tbl[(l, m)] for m in range(8)], 16, T.zext(8, 64, mask_t), 64)
        if type(level) is int:
            fbits = by_mask(level)
        else:
            fbits = by_mask(3)
            for l in (2, 1, 0):
                fbits = T.ite(16, T.eq(8, level, l), by_mask(l), fbits)
    fa, fb = iso.format_positions(v + 1)
    fpos = {}
    for i in range(15):
        fpos[fa[i]] = i
        fpos[fb[i]] = i
    order_index = {rc: k for k, rc in enumerate(g['order'])}
    want_size = n
    if 'C03' in out:
        out['C03'].append(('size', T.eq(64, qr[1], want_size)))
    if 'C04' in out:
        # reported mask == Some(applied)
        d, mv = applied_mask_term(res)
        out['C04'].append(('reported mask is Some', T.eq(64, d, 1)))
        out['C04'].append(('reported mask == applied mask', T.eq(8, mv, mask_t)))
        qm = qr[4]
        out['C04'].append(('qr.mask is Some', T.eq(64, qm[0], 1)))
        out['C04'].append(('qr.mask == applied mask', T.eq(8, qm[1] if len(qm) > 1 else 0, mask_t)))
        out['C04'].append(('qr.size', T.eq(64, qr[1], want_size)))
    n_data_labels = 0
    for r in range(n):
        for c in range(n):
            cellv = data[r * n + c][0]
            lab = g['label'][r][c]
            # C15: type bits (value >> 1) == label >> 1 ; module byte = value | type
            if 'C15' in out:
                out['C15'].append(('label(%d,%d)=%s' % (r, c, iso.LABEL_NAMES[lab]),
                                   T.eq(8, T.band(8, cellv, 0xFE), lab)))
            if lab == iso.DATA:
                n_data_labels += 1
                k = order_index[(r, c)]
                if k < 8 * total:
                    sbit = T.extract_bit(8, stream[k >> 3], 7 - (k & 7))
                else:
                    sbit = 0
                mb = iso.mask_bit_t(mask_t, r, c)
                want = T.bxor(1, sbit, mb)
                got = T.trunc(8, 1, cellv)
                cond = T.eq(1, got, want)
                if 'C08' in out:
                    out['C08'].append(('data(%d,%d)=stream bit %d xor mask' % (r, c, k), cond))
                if 'C02' in out:
                    out['C02'].append(('placement(%d,%d)=bit %d' % (r, c, k), cond))
            elif lab == iso.FORMAT:
                i = fpos[(r, c)]
                want = T.extract_bit(16, fbits, i)
                got = T.trunc(8, 1, cellv)
                if 'C04' in out:
                    out['C04'].append(('format bit %d at (%d,%d)' % (i, r, c), T.eq(1, got, want)))
                if 'C08' in out:
                    out['C08'].append(('format module (%d,%d)' % (r, c), T.eq(1, got, want)))
            else:
                want = g['value'][r][c]
                cond = T.eq(8, T.band(8, cellv, 1), want)
                if lab == iso.VERSION:
                    if 'C04' in out:
                        out['C04'].append(('version info module (%d,%d)' % (r, c), cond))
                else:
                    if 'C03' in out:
                        out['C03'].append(('%s(%d,%d)=%d' % (iso.LABEL_NAMES[lab], r, c, want), cond))
                if 'C08' in out:
                    out['C08'].append(('function module (%d,%d) constant' % (r, c), cond))
    # outside the n x n square: untouched Module::data(LIGHT) == 0
    if 'C03' in out:
        tail_ok = 1
        bad = None
        for i in range(n * n, len(data)):
            x = data[i][0]
            if not (type(x) is int and x == 0):
                c = T.eq(8, x, 0)
                tail_ok = T.land(tail_ok, c)
        out['C03'].append(('backing array beyond %dx%d untouched (%d cells)' % (n, n, len(data) - n * n), tail_ok))
    if 'C15' in out:
        cnt = 0
        sym = False
        for i in range(n * n):
            x = data[i][0]
            hi = T.band(8, x, 0xFE)
            if type(hi) is int:
                cnt += 1 if hi == 0 else 0
            else:
                sym = True
        out['C15'].append(('number of modules labelled data == 8*total codewords + remainder bits',
                           0 if sym else (1 if cnt == 8 * iso.total_codewords(v + 1) + iso.remainder_bits(v + 1) else 0)))
    return out
