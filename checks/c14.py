"""C14 - building is a pure function of input and options, on any thread, in any order (DESIGN.md 4/C14).

 * frame condition: every `static` item and every reference to a static allocation in the MIR of the whole crate is
   classified; a `static mut` or a static with interior mutability is hidden state.  On a tree without such state every
   build/render run of the executor is, by construction, a function of its arguments (the executor has no other input).
   With such state, the static's content is havoc'd (fresh variables) and the outputs must not depend on it.
 * setter histories: every sequence of <= 4 QRBuilder setter calls with symbolic arguments leaves each field at the last
   value set for it (or None); build takes &self and leaves the builder untouched.
 * renderers take &QRCode and leave it untouched (to_str, SvgBuilder::to_str on a symbolic matrix).
Thread schedules are not explored: independence of schedules is implied by the absence of shared mutable state."""
import itertools
import re
import sys
import os

sys.path.insert(0, os.path.dirname(os.path.dirname(os.path.abspath(__file__))))
from checks.common import *          # noqa: F401,F403
from checks import xstage as X
from engine.mirsym import SliceRef, Ptr, L

INTERIOR = re.compile(r'Atomic|Cell<|RefCell|Mutex|RwLock|Once|Lazy|UnsafeCell|thread_local|LocalKey')


def scan_statics(mir_text):
    statics = []
    for m in re.finditer(r'^static( mut)? ([\w:<>{}#\[\] ]+?): (.*?) = ', mir_text, flags=re.M):
        mutable = bool(m.group(1))
        ty = m.group(3)
        kind = 'static mut' if mutable else ('interior-mutable static' if INTERIOR.search(ty) else 'immutable static')
        statics.append({'name': m.group(2), 'type': ty, 'kind': kind})
    refs = re.findall(r'alloc\d+ \(static: ([\w:]+)', mir_text)
    tls = len(re.findall(r'thread_local|LocalKey', mir_text))
    return statics, sorted(set(refs)), tls


SETTERS = [('mode', 2, 3, 'Mode'), ('ecl', 1, 4, 'ECL'), ('version', 3, 40, 'Version'), ('mask', 4, 8, 'Mask')]


def make_builder(I, prog, inp):
    """QRBuilder::new(input) through the crate's own constructor when its MIR is available (so that fields added to the
    builder are initialised the way the crate does it), else field by field from the struct definition"""
    f = prog.resolve('QRBuilder::new')
    if f is not None:
        I.stubs['<I as Into<Vec<u8>>>::into'] = lambda I_, args: args[0]
        try:
            b = I.call_fn(f, [inp])
            if type(b) is L and b.tag == 'QRBuilder':
                return b
        except M.Unsupported:
            pass
        finally:
            I.stubs.pop('<I as Into<Vec<u8>>>::into', None)
    order = prog.structs.get('QRBuilder')
    vals = []
    for fld in order:
        if fld == 'input':
            vals.append(inp)
        elif fld in ('ecl', 'mode', 'version', 'mask'):
            vals.append(I.mk([0], 'enum'))
        else:
            raise M.Unsupported('QRBuilder has a field `%s` and its constructor could not be executed' % fld)
    return I.mk(vals, 'QRBuilder')


def job_history(job):
    """one call history on ONE builder: setters and builds in any order, ending with a build.  At every build the
    arguments handed to QRCode::new must be the input and the option state a fresh builder with the same final settings
    has (last value set, None if never set) - whatever earlier builds returned (QRCode::new is uninterpreted and returns an
    arbitrary Ok(QRCode with arbitrary reported options) / Err)."""
    seq, = job
    prog = worker_prog()
    extra = worker_extra()
    res = {'evaluations': 0, 'obligations': 0, 'discharged': 0, 'failures': [], 'nontrivial': [], 'samples': [],
           'validation': {'cases': 0, 'disagreements': 0}, 'vacuity': 0,
           'stubs': ['QRCode::new -> arbitrary Ok(QRCode with arbitrary reported version/level/mask/mode)/Err, arguments logged']}
    I = M.Interp(prog)
    inp = I.mk([I.mk([T.var('in%d' % i, 8) for i in range(3)], 'buf'), 3], 'Vec')
    b = make_builder(I, prog, inp)
    order = prog.structs.get('QRBuilder')
    fidx = {f: i for i, f in enumerate(order)}
    cell = I.mk([b])
    bp = Ptr(cell, 0)
    last = {}
    items = []
    builds = []
    qorder = prog.structs.get('QRCode')

    def stub_new(I_, args):
        k = len(builds)
        builds.append((list(args), dict(last)))
        ok = T.var('build%d_ok' % k, 1)
        fields = []
        for f in qorder:
            if f == 'data':
                fields.append(I_.mk([I_.mk([T.var('b%d_m%d' % (k, j), 8)], 'Module') for j in range(4)]))
            elif f == 'size':
                fields.append(T.var('b%d_size' % k, 64, below=178))
            elif f in ('version', 'ecl', 'mask', 'mode'):
                below = {'version': 40, 'ecl': 4, 'mask': 8, 'mode': 3}[f]
                fields.append(I_.mk([T.zext(1, 64, T.var('b%d_%s_some' % (k, f), 1)), T.var('b%d_%s' % (k, f), 8, below=below)], 'enum'))
            else:
                raise M.Unsupported('QRCode has an unknown field `%s`' % f)
        qr = I_.mk(fields, 'QRCode')
        return I_.mk([T.zext(1, 64, T.lnot(ok)), {0: I_.mk([qr]), 1: I_.mk([I_.mk([0], 'enum')])}], 'symenum')
    I.stubs['QRCode::new'] = stub_new
    ops = list(seq) + [4]
    for k, si in enumerate(ops):
        if si == 4:
            r = I.call_fn(prog.resolve('QRBuilder::build'), [bp])
            if r is M.DEAD:
                items.append(('build #%d returns' % len(builds), 0))
            continue
        name, fld, below, ty = SETTERS[si]
        v = T.var('arg%d' % k, 8, below=below)
        r = I.call_fn(prog.resolve('QRBuilder::' + name), [bp, v])
        last[name] = v
        if not (type(r) is Ptr and r.c is cell and r.k == 0):
            res['failures'].append({'key': 'C14/setter-chain', 'confirmed': False, 'what': 'setter %s does not return the builder it was called on' % name})
    nbuild = sum(1 for x in ops if x == 4)
    items.append(('every build() calls QRCode::new exactly once', 1 if len(builds) == nbuild else 0))
    for name, fld, below, ty in SETTERS:
        f = b[fidx[name]]
        if name in last:
            items.append(('%s == last value set' % name, T.land(T.eq(64, f[0], 1), T.eq(8, f[1] if len(f) > 1 else 0, last[name]))))
        else:
            items.append(('%s stays unset' % name, T.eq(64, f[0], 0)))
    in_items = list(inp[0])

    def is_input(buf, n):
        return n == 3 and len(buf) >= 3 and all(x is y for x, y in zip(list(buf)[:3], in_items))
    binp = b[fidx['input']]
    items.append(('input untouched', 1 if (type(binp) is L and binp.tag == 'Vec' and is_input(binp[0], len(binp[0]))) else 0))
    for k, (a, state) in enumerate(builds):
        sl = a[0]
        items.append(('build #%d hands the input to QRCode::new' % k, 1 if (type(sl) is SliceRef and sl.start == 0 and is_input(sl.c, sl.len)) else 0))
        for (name, fld, below, ty), pos in zip(SETTERS, (3, 1, 2, 4)):
            f = a[pos]
            if name in state:
                items.append(('build #%d: QRCode::new receives %s = last value set' % (k, name), T.land(T.eq(64, f[0], 1), T.eq(8, f[1] if len(f) > 1 else 0, state[name]))))
            else:
                items.append(('build #%d: QRCode::new receives %s = None (as a fresh builder with the same settings would pass)' % (k, name), T.eq(64, f[0], 0)))
    pan = [('%s@%s' % (o.kind, o.where), T.implies(T.and_many(list(o.pc)), o.cond)) for o in I.obligations]
    solver = worker_solver(30000, 'z3-new', lut_mode='ite', logic='QF_BV')
    syn, nsolv, fails, unk = discharge(solver, items + pan, eval_search=0, chunk=4)
    res['obligations'] = len(items) + len(pan)
    res['evaluations'] = res['obligations']
    res['discharged'] = res['obligations'] - len(fails) - len(unk)
    nm = '+'.join((SETTERS[i][0] if i < 4 else 'build') for i in ops)
    res['nontrivial'] = ['history %s #%d' % (nm, i) for i in range(len(items))]
    if len(seq) == 3 and seq[0] == 4 and seq[2] == 4:
        res['samples'] = [{'history': nm, 'free': 'argument of every setter call, 3 input bytes, outcome and reported options of every build', 'obligations': [lab for lab, _ in items][:12]}]
    for lab, model in fails[:1]:
        # native confirmation: the same history on a real builder against a fresh builder with the final settings
        model = model or {}
        opstr = []
        for k, si in enumerate(ops):
            opstr.append('b' if si == 4 else '%s%d' % ('mevk'[si], model.get('arg%d' % k, 0) % SETTERS[si][2]))
        confirmed, what, req = False, 'after %s: %s fails symbolically; native replays agree with a fresh builder' % (nm, lab), ''
        if extra and extra.get('native'):
            native = OV.Native(extra['native'])
            variants = [','.join(opstr)]
            # the concrete setter arguments matter (e.g. a mode the input cannot be encoded in fails the build): try a few
            rr = random.Random(len(nm))
            for _ in range(12):
                variants.append(','.join('b' if si == 4 else '%s%d' % ('mevk'[si], (2 if si == 0 else rr.randrange(SETTERS[si][2]))) for si in ops))
            for inp_b in (b'0123456789', b'HELLO WORLD', b'https://example.com/', b'22', b'36'):
                for ostr in variants:
                    req = 'history %s %s' % (OV.hexs(inp_b), ostr)
                    ans = native.ask(req)
                    # (a panic here is the documented one for a forced mode that cannot represent the input: not a witness)
                    if ans.startswith('same=false'):
                        confirmed, what = True, 'history %s on input %r: the reused builder and a fresh builder with the same final settings build different symbols: %s  [%s]' % (
                            ostr, inp_b, ans[11:150], lab)
                        break
                if confirmed:
                    break
            native.close()
        res['failures'].append({'key': 'C14/builder-history', 'confirmed': confirmed, 'what': what, 'obligation': lab, 'replay': {'request': req}})
    if unk:
        raise Inconclusive('solver unknown')
    res['vacuity'] = 1
    q = solver_counts(solver)
    q['syntactic'] = syn
    res['queries'] = q
    res['solver_time_s'] = solver.time_s
    solver.close()
    res.update(interp_stats(I))
    return res


def job_frame(job):
    """a build and two renderings with every input symbolic: outputs must be functions of the arguments only"""
    v, = job
    prog = worker_prog()
    res = {'evaluations': 0, 'obligations': 0, 'discharged': 0, 'failures': [], 'nontrivial': [], 'samples': [],
           'validation': {'cases': 0, 'disagreements': 0}, 'vacuity': 0, 'stubs': ['score::score uninterpreted']}
    R = X.run_place(prog, v)
    I = R['I']
    qr = R['qr']
    n = qr[1]
    allowed = set('s%d' % i for i in range(len(R['stream']))) | {'lvl', 'mask_some', 'mask_val'} | set('score%d' % i for i in range(8))
    bad = set()
    for i in range(n * n):
        bad |= (T.support(qr[0][i][0]) - allowed)
    items = [('no output module depends on anything but the arguments (support check over %d cells)' % (n * n), 1 if not bad else 0),
             ('no hidden state was read during the build (havoc reads: %d)' % len(I.havoc_reads), 1 if not I.havoc_reads else 0)]
    # rendering leaves the QR code untouched
    before = [c[0] for c in qr[0][:n * n]]
    cell = I.mk([qr])
    s = I.call_fn(prog.resolve('QRCode::to_str'), [Ptr(cell, 0)])
    items.append(('to_str leaves the QR code untouched', 1 if all(c[0] is b for c, b in zip(qr[0][:n * n], before)) else 0))
    from checks import svgdrv as S
    bc, bp = S.new_builder(I, prog)
    s2 = S.to_str(I, prog, bp, qr)
    items.append(('SvgBuilder::to_str leaves the QR code untouched', 1 if all(c[0] is b for c, b in zip(qr[0][:n * n], before)) else 0))
    sup = set()
    for g, ch in S.flatten(list(s2[0])):
        sup |= T.support(g) | (T.support(ch) if isinstance(ch, T.Term) else set())
    items.append(('the SVG depends on the QR code and the builder only', 1 if not (sup - allowed) else 0))
    res['obligations'] = len(items)
    res['evaluations'] = len(items) + n * n
    res['discharged'] = sum(1 for _, c in items if c == 1)
    res['nontrivial'] = ['frame V%02d #%d' % (v + 1, i) for i in range(len(items))] + ['frame V%02d cell %d' % (v + 1, i) for i in range(n * n)]
    res['samples'] = [{'run': 'place_on_matrix + to_str + SvgBuilder::to_str, V%02d' % (v + 1), 'free': 'stream, level, mask option, stub scores',
                       'obligations': [lab for lab, _ in items], 'mir_statements_executed': I.steps}]
    for lab, c in items:
        if c != 1:
            res['failures'].append({'key': 'C14/frame', 'confirmed': False, 'what': lab + ' fails: %s' % sorted(bad)[:4], 'obligation': lab})
    res['vacuity'] = 1
    res['queries'] = {'issued': 0, 'unsat': 0, 'sat': 0, 'unknown': 0, 'syntactic': len(items)}
    res.update(interp_stats(I))
    return res


def main(argv):
    chk = Check('C14', argv, features='svg')
    chk.rule = ('setter histories: one obligation per field per history (all sequences of <= 4 setter calls, arguments symbolic); frame: one per '
                'output cell (support must be a subset of the arguments) and per renderer; non-trivial = quantified over call arguments / inputs')
    chk.load()
    statics, refs, tls = scan_statics(chk.mir_text)
    hidden = [s_ for s_ in statics if s_['kind'] != 'immutable static']
    chk.cov['statics'] = statics
    chk.cov['static_allocations_referenced'] = refs
    chk.cov['thread_local_mentions'] = tls
    chk.cov['mir_functions_scanned'] = chk.mir_text.count('\nfn ')
    chk.cov['obligations'] += 1
    chk.cov['evaluations'] += chk.cov['mir_functions_scanned']
    native = chk.native()
    # containers with a randomly seeded hasher: their iteration order is an input the caller does not control
    unordered = sorted(set(re.findall(r'\b(HashMap|HashSet|RandomState)\b', chk.mir_text)))
    chk.cov['randomly_seeded_containers'] = unordered
    if unordered:
        bad = None
        for lvl in range(4):
            ans = native.ask('repeat %d' % lvl)
            chk.cov['translator_validation']['concrete_cases'] += 600
            if ans.startswith('same=false') or ans.startswith('PANIC'):
                bad = (lvl, ans)
                break
        if bad:
            chk.failure({'key': 'C14/unordered-container', 'confirmed': True,
                         'what': 'repeated builds of the same input differ (%s); the crate uses %s, whose iteration order changes from instance to instance' % (bad[1][11:200], unordered),
                         'replay': {'request': 'repeat %d' % bad[0]}})
        else:
            chk.inconclusive.append('the crate uses %s (randomly seeded, iteration order not a function of the arguments), which the executor does not model; '
                                    '2400 repeated native builds showed no difference' % unordered)
    if hidden or tls:
        # hidden state exists: the executor does not model atomics/locks; decide by native history and thread replay
        bad = None
        for inp in (b'HELLO WORLD', b'0123456789', bytes(range(40))):
            ans = native.ask('purity %s' % OV.hexs(inp))
            chk.cov['translator_validation']['concrete_cases'] += 1
            if ans != 'same=true':
                bad = (inp, ans)
                break
        if bad:
            chk.failure({'key': 'C14/hidden-state', 'confirmed': True,
                         'what': 'builds of %r differ across histories/threads (%s); hidden state in the crate: %s' % (bad[0], bad[1][:60], [h['name'] for h in hidden]),
                         'replay': {'request': 'purity %s' % OV.hexs(bad[0])}})
        else:
            chk.inconclusive.append('the crate has hidden mutable state %s which the executor cannot model; native history/thread replay showed no difference' % [h['name'] for h in hidden])
    else:
        chk.cov['discharged'] += 1
        for inp in (b'HELLO WORLD', b'0123456789'):
            ans = native.ask('purity %s' % OV.hexs(inp))
            chk.cov['translator_validation']['concrete_cases'] += 1
            if ans != 'same=true':
                chk.failure({'key': 'C14/native-history', 'confirmed': True, 'what': 'native builds of %r differ across histories/threads: %s' % (inp, ans[:60]),
                             'replay': {'request': 'purity %s' % OV.hexs(inp)}})
    native.close()
    # histories over the four setters and build (op 4), each followed by a final build
    seqs = [()]
    for k in range(1, 5):
        seqs += list(itertools.product(range(5), repeat=k))
    if chk.tier == 'quick':
        seqs = [s_ for s_ in seqs if len(s_) <= 3] + [s_ for s_ in seqs if len(s_) == 4 and chk.rng.random() < 0.1]
    native_path = chk.ov.native(chk.features)
    chk.jobs(job_history, [(s_,) for s_ in seqs], extra={'native': native_path})
    chk.jobs(job_frame, [(v,) for v in ([0, 1] if chk.tier == 'quick' else [0, 1, 2, 6])], extra={})
    chk.cov['histories'] = len(seqs)
    chk.bounds += ['%d call histories on one builder over {mode, ecl, version, mask, build} followed by a final build (every sequence of <= 3 calls, a seed-chosen 10%% of the 625 '
                   'sequences of 4 in the quick tier; all in thorough); setter arguments symbolic, every build returns an arbitrary Ok/Err with arbitrary reported options' % len(seqs),
                   'frame condition: static items and static allocations of the whole crate (%d functions scanned); build+render runs on V1, V2' % chk.cov['mir_functions_scanned']]
    chk.outside += ['thread schedules are not explored (no concurrency support in either engine): schedule independence is concluded from the absence of shared mutable state',
                    'ImageBuilder (PNG) rendering: third-party rasteriser, see C13']
    chk.assumptions += ['a run of the executor has no input other than its arguments; hidden state could only enter through statics, which are classified from the MIR']
    chk.finish()


if __name__ == '__main__':
    main(sys.argv[1:])
